#!/usr/bin/env python3-vt
"""C11 -- each call sees only the current configuration, nothing carried over."""
import os
import re
import sys

sys.path.insert(0, os.path.join(os.path.dirname(os.path.abspath(__file__)), "..", "lib"))
from hypothesis import strategies as st

import drv
import gen
import pbt
from common import Ctx, Failure, main_wrapper

PID = "C11"
RULE = ("Hypothesis-generated histories of 2..30 steps in ONE process per build (thread-safe and non-thread-safe, ASan; "
        "plain builds, i.e. the real allocator with immediate address reuse, for the same comparison and for heap growth): write_config(structured config over every option) / empty / delete / garbage / "
        "directory-in-place / syntax-error-plus-options, and call(request), one call in eight made while the program is out of descriptors (EMFILE on every open; not compared itself). Oracle: differential -- what call k adds to "
        "every sink equals what the same (config, request) adds as the FIRST call of a fresh process (pid normalised); "
        "ASan silent; heap after a repeated (config, request) pair equal. non-trivial = a later configuration omits or "
        "invalidates an option an earlier one set; distinct by (option, later state, build)")

SOURCES = [s for s in gen.ALL_SOURCES if s not in ("pid", "tid", "tid_kernel", "timestamp", "timestamp_ms", "timestamp_us",
                                                   "datetime")]
OPTNAMES = [b"output", b"message_format", b"filter_chain", b"error_logging", b"syslog_facility", b"syslog_level",
            b"syslog_ident", b"datasource_message_max_length", b"log_message_max_length"]


def strategy():
    @st.composite
    def cfgstep(draw):
        k = draw(st.sampled_from(["cfg"] * 5 + ["broken"] * 2 + ["noheader", "badheader"]))
        cfg = draw(gen.st_config("@OUT@", SOURCES, ("snoopy_literal", "uid", "gid", "failure")))
        if k == "broken" and cfg["ini"] is not None and cfg["opts"]:
            # a syntax error in the middle of otherwise valid options
            lines = cfg["ini"].split(b"\n")
            pos = draw(st.integers(1, len(lines) - 1))
            lines.insert(pos, draw(st.sampled_from([b"this line has no separator", b"[unterminated", b"=novalue?"])))
            cfg = dict(cfg, ini=b"\n".join(lines), kind=cfg["kind"] + "+syntaxerror")
        if k in ("noheader", "badheader") and cfg["ini"] is not None and cfg["ini"].startswith(b"[snoopy]\n") and cfg["opts"]:
            # option lines outside any (intact) section header: a fresh process ignores them -- so must a later call of an old one
            body = cfg["ini"][len(b"[snoopy]\n"):]
            cfg = dict(cfg, ini=(b"" if k == "noheader" else draw(st.sampled_from([b"[snoopy\n", b"[other]\n", b"[snoopy ]x\n", b"snoopy]\n"]))) + body,
                       kind=cfg["kind"] + "+" + k)
        return {"op": "cfg", "cfg": cfg}

    @st.composite
    def callstep(draw):
        argv = draw(st.one_of(st.none(), st.lists(gen.text_bytes(0, 10), max_size=3),
                              st.sampled_from([300, 700, 3000]).map(lambda n: [b"a" * n])))
        c = {"op": "call", "kind": draw(st.sampled_from(["v", "e"])),
             "path": draw(st.sampled_from([b"/bin/true", b"/x", b"/usr/bin/" + b"n" * 40])), "argv": argv}
        if draw(st.sampled_from([False] * 7 + [True])):
            c["nofile"] = True
        return c

    NONDEFAULT = {
        b"output": [b"file:@OUT@/log", b"stdout", b"socket:@OUT@/sock", b"devnull", b"stderr", b"syslog", b"syslog", b"file:/dev/full"],
        b"message_format": [b"F1 %{cmdline}", b"%{filename}|%{uid}"],
        b"filter_chain": [b"only_uid:4242", b"exclude_uid:0"],
        b"error_logging": [b"yes"],
        b"syslog_facility": [b"LOCAL3", b"MAIL"],
        b"syslog_level": [b"DEBUG", b"ERR"],
        b"syslog_ident": [b"ident-%{uid}", b"other", b"", b"%{env:NOT_SET_ANYWHERE}"],
        b"datasource_message_max_length": [b"255", b"300"],
        b"log_message_max_length": [b"255", b"400"],
    }

    @st.composite
    def targeted(draw):
        """option X set to a visible non-default value, calls, then a configuration that no longer sets X."""
        opt = draw(st.sampled_from(sorted(NONDEFAULT)))
        val = draw(st.sampled_from(NONDEFAULT[opt]))
        base = [(b"message_format", b"T %{filename} %{cmdline}")] if opt != b"message_format" else []
        extra = draw(st.lists(st.sampled_from([(b"error_logging", b"yes"), (b"log_message_max_length", b"255"),
                                               (b"output", b"file:@OUT@/log"), (b"syslog_level", b"NOTICE"), (b"output", b"syslog"), (b"output", b"syslog")]),
                              max_size=2, unique_by=lambda kv: kv[0]))
        extra = [kv for kv in extra if kv[0] != opt]
        a_opts = draw(st.permutations(base + extra + [(opt, val)]))
        a_ini = gen.render_ini(a_opts)
        if draw(st.sampled_from([False, False, True])):
            lines = a_ini.split(b"\n")
            lines.insert(draw(st.integers(1, len(lines) - 1)), b"a line without separator")
            a_ini = b"\n".join(lines)
        A = {"kind": "targeted", "ini": a_ini, "opts": list(a_opts)}
        after = draw(st.sampled_from(["omitted", "omitted", "absent", "empty", "garbage", "dir", "invalid", "flipped"]))
        if after == "omitted":
            b_opts = base + extra
            B = {"kind": "targeted-omitted", "ini": gen.render_ini(b_opts), "opts": b_opts}
        elif after == "invalid":
            b_opts = base + extra + [(opt, b"bogus-value")]
            B = {"kind": "targeted-invalid", "ini": gen.render_ini(b_opts), "opts": b_opts}
        elif after == "flipped":
            other = {b"error_logging": b"no"}.get(opt, draw(st.sampled_from(NONDEFAULT[opt])))
            b_opts = base + extra + [(opt, other)]
            B = {"kind": "targeted-flipped", "ini": gen.render_ini(b_opts), "opts": b_opts}
        elif after == "absent":
            B = {"kind": "absent", "ini": None, "opts": []}
        elif after == "dir":
            B = {"kind": "dir", "ini": None, "opts": [], "dir": True}
        elif after == "empty":
            B = {"kind": "empty", "ini": b"", "opts": []}
        else:
            B = {"kind": "garbage", "ini": draw(st.binary(max_size=60)), "opts": []}
        calls = lambda: [draw(callstep()) for _ in range(draw(st.integers(1, 3)))]
        long_call = {"op": "call", "kind": "e", "path": b"/bin/long", "argv": [b"a" * draw(st.sampled_from([280, 500, 3000]))]}
        if draw(st.sampled_from([False, False, True])):
            A, B = B, A       # first the configuration without X, then with it
        steps = [{"op": "cfg", "cfg": A}] + calls() + [long_call] + [{"op": "cfg", "cfg": B}] + calls() + [long_call]
        if draw(st.booleans()):
            steps += [{"op": "cfg", "cfg": A}, long_call]
        return {"steps": steps}

    @st.composite
    def syslogseq(draw):
        """2..4 configurations that all log through the C library's syslog machinery (output syslog, where compiled in, else the
        default output), each naming its own subset of ident / facility / level -- libc keeps tag, facility and options between calls."""
        steps = []
        for _ in range(draw(st.integers(2, 4))):
            opts = [(b"output", draw(st.sampled_from([b"syslog", b"syslog", b"syslog", b"devlog"]))), (b"message_format", b"S %{filename} %{cmdline}")]
            if draw(st.sampled_from([True, True, False])):
                opts.append((b"syslog_ident", draw(st.sampled_from([b"", b"", b"%{env:NOT_SET_ANYWHERE}", b"first-ident", b"id-%{uid}", b"x" * 40]))))
            if draw(st.sampled_from([True, True, False])):
                opts.append((b"syslog_facility", draw(st.sampled_from(gen.FACILITIES)).encode()))
            if draw(st.sampled_from([True, False])):
                opts.append((b"syslog_level", draw(st.sampled_from(gen.LEVELS)).encode()))
            opts = draw(st.permutations(opts))
            steps.append({"op": "cfg", "cfg": {"kind": "syslogseq", "ini": gen.render_ini(opts), "opts": list(opts)}})
            steps += [draw(callstep()) for _ in range(draw(st.integers(1, 2)))]
        return {"steps": steps}

    @st.composite
    def case(draw):
        k = draw(st.integers(0, 5))
        if k == 0:
            return draw(syslogseq())
        if k <= 3:
            return draw(targeted())
        n = draw(st.integers(2, 30))
        steps = [draw(cfgstep())]
        for _ in range(n - 1):
            steps.append(draw(st.one_of(callstep(), callstep(), cfgstep())))
        if not any(s["op"] == "call" for s in steps):
            steps.append(draw(callstep()))
        return {"steps": steps}
    return case()


FILES = ["/log", "/log-x-0"]


def sink_ops(out):
    return gen.std_sinks(out)


def call_ops(out, s, snap=False):
    # "nofile": the calling program has run out of descriptors for the time of this one call (soft limit 0, lifted right after)
    lim = ([drv.op("R", 0)], [drv.op("R", -1)]) if s.get("nofile") else ([], [])
    return [drv.op("x", *[out + f for f in FILES])] + lim[0] + \
           [drv.op_exec(s["kind"], s["path"], s["argv"], [b"E=1"], ret=-1, err=2, snap=snap)] + lim[1] + [drv.op("L"), drv.op("G")]


def norm(name, content):
    if name == "devlog" and isinstance(content, list):
        # (records sent by the C library's syslog() carry its own time stamp after the priority)
        return [re.sub(rb"^(<\d+>)[A-Z][a-z]{2} [ \d]\d \d\d:\d\d:\d\d ", rb"\1TIME ", re.sub(rb"\[\d+\]: ", b"[PID]: ", d, count=1)) for d in content]
    return content


def deltas(dumps):
    """per-call additions for every sink from consecutive 'G' dumps (files are unlinked before each call)."""
    out = []
    prev = {}
    for g in dumps:
        d = drv.parse_dump(g)
        cur = {}
        for name, (typ, fd, content) in d.items():
            if typ == 2:
                cur[name] = content
            else:
                p = prev.get(name, [] if typ == 3 else b"")
                cur[name] = norm(name, content[len(p):])
                prev[name] = content
        out.append(cur)
    return out


def run_history(d, c, snap=False):
    out = d.out
    # errno on entry to each call is what the previous (failed) exec left behind, as in a real process
    ops = sink_ops(out) + [drv.op("e", -1)]
    calls = []
    cfg = None
    for s in c["steps"]:
        if s["op"] == "cfg":
            cfg = s["cfg"]
            ops += gen.cfg_ops(cfg, out)
        else:
            ops += call_ops(out, s, snap)
            calls.append((cfg, s))
    res = d.scenario(ops)
    return res, calls


def run_fresh(d, cfg, s):
    out = d.out
    ops = sink_ops(out) + gen.cfg_ops(cfg, out) + call_ops(out, s)
    return d.scenario(ops)


def evaluate(env, c):
    # the memory-checked builds see double frees and stale pointers; the plain builds run with the real allocator, where a freed
    # string's address is handed out again at once (ASan's quarantine never does that) -- state keyed on such an address shows there
    ncfg = sum(1 for s in c["steps"] if s["op"] == "cfg")
    for variant in [v for v in env.builds if "asan" in v or ncfg >= 2]:
        d = env.driver(variant)
        res, calls = run_history(d, c)
        reports = d.sanitizer_reports()
        if not res.clean:
            raise Failure("[%s] history crashed or hung (double free / use after free?)" % variant,
                          {"result": res.describe(), "sanitizer": [r[:2500] for r in reports[:1]]}, key="crash")
        ds = deltas(res.of("G"))
        if len(ds) != len(calls):
            raise Failure("[%s] %d of %d calls completed" % (variant, len(ds), len(calls)), None, key="incomplete")
        fresh_cache = {}
        for k, ((cfg, s), got) in enumerate(zip(calls, ds)):
            if s.get("nofile"):
                continue        # what a call without descriptors manages to log is C03's business; here it is a step of the history
            key = (cfg["ini"], cfg.get("dir"), s["kind"], s["path"], repr(s["argv"]))
            if key not in fresh_cache:
                fr = run_fresh(d, cfg, s)
                d.sanitizer_reports()
                if not fr.clean:
                    raise Failure("[%s] fresh process crashed for this (config, request)" % variant, {"result": fr.describe()}, key="crash")
                fresh_cache[key] = deltas(fr.of("G"))[0]
            want = fresh_cache[key]
            if got != want:
                bad = sorted(n for n in want if got.get(n) != want[n])
                raise Failure("[%s] call %d of the history differs from the same call made first in a fresh process at: %s"
                              % (variant, k, ",".join(bad)),
                              {n: short(got.get(n)) for n in bad}, {n: short(want[n]) for n in bad}, key="carryover")
    # heap growth: the same (config, request) pair twice at the end of the history, plain builds
    for variant in [v for v in env.builds if v.endswith("plain")]:
        d = env.driver(variant)
        last_cfg = [s for s in c["steps"] if s["op"] == "cfg"][-1]
        last_call = [s for s in c["steps"] if s["op"] == "call"][-1]
        c2 = {"steps": c["steps"] + [last_cfg, last_call, last_call, last_call]}
        res, calls = run_history(d, c2, snap=True)
        if not res.clean:
            raise Failure("[%s] history crashed or hung" % variant, {"result": res.describe()}, key="crash")
        T = res.of("T")
        for t in T[-2:]:
            # harness-independent readings inside one call: before the call / at real-exec entry / end of hook / after return
            h0, h1, h1b, h2 = (int(t.f[k]) for k in (7, 8, 9, 10))
            if h1 != h0 or h2 != h1b:
                raise Failure("[%s] the library retains heap memory in a repeated call at the end of the history" % variant,
                              {"heap_before": h0, "at_real_exec": h1, "after_hook": h1b, "after_return": h2}, key="growth")


def short(v):
    if isinstance(v, list):
        return [x[:200] for x in v[:4]]
    if isinstance(v, bytes):
        return v[:300]
    return v


def classify(c):
    seen = {}
    nontriv = set()
    cls = set()
    calls_since = False
    for s in c["steps"]:
        if s["op"] == "call":
            calls_since = True
            continue
        cfg = s["cfg"]
        now = {k: v for k, v in cfg["opts"]}
        state = cfg["kind"]
        for k in OPTNAMES:
            if k in seen and calls_since:
                if k not in now:
                    nontriv.add((k.decode(), "omitted:" + ("file-" + state if state in ("absent", "dir", "empty", "garbage") else "opts")))
                elif now[k] in (b"x", b"bogus") or b"bogus" in now[k]:
                    nontriv.add((k.decode(), "invalidated"))
        for k in now:
            seen[k] = True
        cls.add("cfg:" + ("broken" if state.endswith("syntaxerror") else state if (state in ("absent", "dir", "empty", "garbage", "syslogseq") or state.startswith("targeted")) else "opts"))
    ncalls = sum(1 for s in c["steps"] if s["op"] == "call")
    cls.add("calls:%d" % min(ncalls, 10))
    if any(s.get("nofile") for s in c["steps"] if s["op"] == "call"):
        cls.add("call-without-descriptors")
    key = tuple(sorted(nontriv))[:6] if nontriv else None
    return key, sorted(cls) + (["carryover-candidate"] if nontriv else [])


def sample(c):
    out = []
    for s in c["steps"][:12]:
        if s["op"] == "cfg":
            out.append({"cfg": s["cfg"]["ini"] if not s["cfg"].get("dir") else "<directory>"})
        else:
            a = s["argv"]
            out.append({"call": s["kind"], "path": s["path"], "argv": a if a is None else [x[:30] for x in a]})
    return out


def _cf(opts, kind="fixed", raw=None):
    return {"op": "cfg", "cfg": {"kind": kind, "ini": raw if raw is not None else gen.render_ini(opts), "opts": opts}}


_LONG = {"op": "call", "kind": "e", "path": b"/bin/long", "argv": [b"a" * 600]}
_SHORT = {"op": "call", "kind": "v", "path": b"/bin/s", "argv": [b"s"]}
FIXED = [
    # scalar options set by one call and gone in the next (non-thread-safe build keeps its configuration structure)
    {"steps": [_cf([(b"datasource_message_max_length", b"255"), (b"log_message_max_length", b"300")]), _LONG, _cf([]), _LONG, _SHORT]},
    {"steps": [_cf([(b"syslog_facility", b"LOCAL3"), (b"syslog_level", b"DEBUG"), (b"error_logging", b"yes")]), _SHORT,
               {"op": "cfg", "cfg": {"kind": "absent", "ini": None, "opts": []}}, _SHORT, _LONG]},
    # the same, set by a file that also contains a syntax error
    {"steps": [_cf([], raw=b"[snoopy]\ndatasource_message_max_length = 300\nthis line has no separator\n"), _LONG, _cf([]), _LONG]},
    # error under error_logging off, then on (and a decreasing limit)
    {"steps": [_cf([(b"log_message_max_length", b"255")]), _LONG, _cf([(b"log_message_max_length", b"255"), (b"error_logging", b"yes")]), _LONG,
               _cf([]), _LONG, _cf([(b"log_message_max_length", b"300")]), _LONG]},
    # file output twice in one process, duplicate output lines, unknown output name
    {"steps": [_cf([(b"output", b"file:@OUT@/log")]), _SHORT, _SHORT, _cf([(b"output", b"file:@OUT@/log"), (b"output", b"devnull")]), _SHORT,
               _cf([(b"output", b"flie:@OUT@/log")]), _SHORT, _SHORT, _SHORT]},
    # the C library's own syslog state (tag, facility, options) between two calls that both use output = syslog
    {"steps": [_cf([(b"output", b"syslog"), (b"syslog_facility", b"LOCAL5"), (b"syslog_ident", b"first-ident")]), _SHORT,
               _cf([(b"output", b"syslog"), (b"syslog_ident", b"")]), _SHORT, _cf([(b"output", b"syslog")]), _SHORT]},
    # a sink that refuses every record (ENOSPC from /dev/full, a directory, a missing directory), then a working file output
    {"steps": [_cf([(b"output", b"file:/dev/full")]), _SHORT, _LONG, _cf([(b"output", b"file:@OUT@/log")]), _SHORT, _SHORT,
               _cf([(b"output", b"file:/dev/full")]), _SHORT, _cf([(b"output", b"file:@OUT@/log-x-0")]), _LONG]},
    # one call made while the program is out of descriptors (configuration file cannot be opened: EMFILE), then ordinary calls
    {"steps": [_cf([(b"output", b"file:@OUT@/log"), (b"message_format", b"N %{filename} %{cmdline}")]), _SHORT, dict(_SHORT, nofile=True), _SHORT, _LONG,
               _cf([(b"output", b"stdout"), (b"filter_chain", b"exclude_uid:4242")]), dict(_LONG, nofile=True), _SHORT,
               _cf([(b"output", b"file:@OUT@/log-x-0")]), _SHORT]},
    {"steps": [_cf([(b"output", b"file:@OUT@/log")]), dict(_SHORT, nofile=True), _SHORT, _SHORT]},
    {"steps": [_cf([(b"output", b"file:@OUT@")]), _SHORT, _cf([(b"output", b"file:@OUT@/log")]), _SHORT,
               _cf([(b"output", b"file:@OUT@/nodir/log")]), _SHORT, _cf([(b"output", b"file:@OUT@/log")]), _SHORT]},
    {"steps": [_cf([(b"output", b"syslog"), (b"syslog_facility", b"LOCAL3"), (b"syslog_level", b"ERR")]), _SHORT,
               _cf([(b"output", b"syslog"), (b"syslog_facility", b"KERN")]), _SHORT, _cf([(b"output", b"devlog"), (b"syslog_facility", b"KERN")]), _SHORT]},
]


def main():
    ctx = Ctx(PID, "exploration", RULE)
    # (one more build has the syslog output compiled in, which the default configuration leaves out: openlog()/syslog() keep
    # process-wide state inside libc between calls)
    bs = ctx.run.build_many(["ts-asan", "nts-asan", "ts-plain", "nts-plain", {"variant": "ts-asan", "name": "ts-asan-syslog", "extra_configure": ["--enable-output-syslog"]}])
    builds = {b["name"]: b for b in bs}
    ctx.assumptions = ["formats use data sources whose value is identical in the history process and in a fresh child of the same "
                       "driver (everything except pid, tid, tid_kernel, timestamp*, datetime); the pid in the devlog prefix is normalised",
                       "heap: in the last two of three identical trailing calls the library must hold nothing at real-exec entry and after return (plain -O2 builds, mallinfo2, tcache off)"]
    nw, per = (4, 150) if ctx.quick else (16, 1500)
    pbt.run(ctx, builds, strategy, evaluate, classify, nw, per, sample=sample, fixed_cases=FIXED)
    ctx.finish()


if __name__ == "__main__":
    main_wrapper(main)
