#!/usr/bin/env python3-vt
"""C04 -- exactly one faithful record per logged exec, none when filtered."""
import os
import re
import sys

sys.path.insert(0, os.path.join(os.path.dirname(os.path.abspath(__file__)), "..", "lib"))
from hypothesis import strategies as st

import drv
import gen
import model
import pbt
from common import Ctx, Failure, main_wrapper

PID = "C04"
RULE = ("Hypothesis-generated (output kind+argument, syslog facility/level/ident, message bytes and length, filter "
        "chain passing/dropping, error_logging, stdout/stderr as pipe/file/pty, scripted or real exec); every candidate "
        "sink (fd1, fd2, controlling tty, socket, redirected /dev/log, log file, templated log file) is sampled at "
        "real-exec entry and at the end. non-trivial = logged case with sink other than devnull/noop AND (message > 1 KiB "
        "OR binary bytes OR path/ident template OR non-default syslog setting); distinct by (sink, size class, filter "
        "outcome, stdio type, real)")

SIZES = [1, 2, 17, 200, 1023, 1024, 4095, 4096, 4097, 8192, 16383, 16384, 65000, 300000, 1048575]
DGRAM_MAX = 65000      # kernel-imposed datagram limit is outside the property
TTY_MAX = 2000         # nobody drains the pty while the call runs
PIPE_MAX = 900000


def strategy():
    @st.composite
    def case(draw):
        out = draw(st.sampled_from(["file", "file", "filetpl", "stdout", "stderr", "devtty", "socket", "devlog",
                                    "default", "bogus", "devnull", "noop", "file-noarg"]))
        cap = {"devtty": TTY_MAX, "socket": DGRAM_MAX, "devlog": DGRAM_MAX, "default": DGRAM_MAX, "bogus": DGRAM_MAX,
               "stdout": PIPE_MAX, "stderr": PIPE_MAX}.get(out, 1048575)
        stdio = draw(st.sampled_from(["pipe", "pipe", "file", "pty"]))
        if stdio == "pty" and out in ("stdout", "stderr"):
            cap = min(cap, TTY_MAX)
        n = draw(st.one_of(st.sampled_from([s for s in SIZES if s <= cap]), st.integers(1, min(cap, 5000))))
        binary = draw(st.booleans())
        # message = PRE + %{env:M} + MID + %{cmdline} ...   built so that its bytes are known
        shape = draw(st.sampled_from(["env", "env", "lit+env", "cmdline", "filename+env", "literal", "empty"]))
        if shape == "empty":
            n = 0
        body = draw(gen.bytes_nonul(n, n)) if binary else draw(gen.text_bytes(n, n))
        chain = draw(st.sampled_from(["none", "none", "pass", "drop", "pass2", "dropmid"]))
        errlog = draw(st.sampled_from([False] * 9 + [True]))
        fac = draw(st.one_of(st.none(), st.sampled_from(gen.FACILITIES)))
        lvl = draw(st.one_of(st.none(), st.sampled_from(gen.LEVELS)))
        ident = draw(st.one_of(st.none(), st.sampled_from([b"snoopy", b"id-%{snoopy_literal:x}", b"%{env:I}", b"a b", b""]),
                               gen.text_bytes(250, 255).map(gen.make_safe)))
        if out in ("devlog", "default", "bogus"):
            # the ident matters only here: make templates whose expansion is much longer than their text frequent
            ident = draw(st.sampled_from([None, b"snoopy", b"%{env:I}", b"%{env:I}", b"x%{env:I}y", b"id-%{snoopy_literal:x}", b""]))
        n_id = draw(st.sampled_from([0, 5, 40, 100, 200, 246, 253, 254, 255]))
        identval = draw(gen.text_bytes(n_id, n_id))
        sockpad = draw(st.sampled_from([0, 0, 100, 105, 106, 107]))      # total length of the socket path (0 = natural)
        exact_limit = draw(st.booleans())
        real = draw(st.sampled_from([False] * 3 + [True])) and n < 100000
        repeat = draw(st.sampled_from([1, 1, 2, 3]))
        return {"repeat": repeat, "sockpad": sockpad, "out": out, "stdio": stdio, "n": n, "body": body, "shape": shape, "chain": chain, "errlog": errlog,
                "fac": fac, "lvl": lvl, "ident": ident, "identval": identval, "exact_limit": exact_limit, "real": real,
                # the caller has switched its stdout to full buffering (setvbuf / stdbuf -o): buffering is the caller's business, the record
                # still has to be out before the image is replaced -- also when stdout is a terminal
                "fullbuf": draw(st.sampled_from([False, False, True])),
                # the calling process has a 7-digit pid (pid namespaces of large hosts; pid_max up to 4194304)
                "bigpid": draw(st.sampled_from([0, 0, 0, 0, 0, 1234567, 4194303])),
                # a launcher: every one of the `repeat` calls is made in a vfork() child of the same process (shared memory, no fork handlers)
                "launcher": (not real) and draw(st.sampled_from([False, False, False, True]))}
    return case()


CHAINS = {"none": None, "pass": b"noop", "drop": b"only_uid:4242", "pass2": b"only_root;exclude_uid:5", "dropmid": b"noop;exclude_uid:0;only_root"}


def sock_path(c, out):
    """socket path, optionally padded to an exact total length (sun_path holds at most 107 bytes)"""
    n = c.get("sockpad", 0)
    base = out + "/sock"
    if n and n > len(base):
        return base + "k" * (n - len(base))
    return base


def plan(c, out, trim=0):
    """-> dict(ini, environ, path, argv, message, dropped)"""
    o = out.encode()
    body = c["body"][:len(c["body"]) - trim] if trim else c["body"]
    environ = [b"I=" + c["identval"], b"Z=1"]
    path, argv = (drv.ARGDUMP.encode() if c["real"] else b"/bin/prog"), [b"prog", b"arg"]
    sh = c["shape"]
    if sh == "env":
        fmt = b"%{env:M}"
        environ.append(b"M=" + body)
    elif sh == "lit+env":
        fmt = b"pre:%{env:M}:post %"
        environ.append(b"M=" + body)
    elif sh == "cmdline":
        fmt = b"%{cmdline}"
        argv = [body] if body else None
    elif sh == "filename+env":
        fmt = b"%{filename}|%{env:M}"
        environ.append(b"M=" + body)
    elif sh == "literal":
        lit = gen.make_safe(bytes(ch if 32 <= ch < 127 and ch not in b"%" else 0x61 for ch in body[:900])) or b"x"
        fmt = b"%{snoopy_literal:" + lit.replace(b"}", b")") + b"}" if len(lit) < 800 else lit
    else:
        fmt = b"%{noop}"
    fctx = model.FormatCtx(path, argv, environ)
    message = model.render(model.expand_pieces(fmt, fctx))
    if len(message) > 1048575 and not trim:
        return plan(c, out, trim=len(message) - 1048575)    # the configurable maximum caps the message
    L = max(255, len(message)) if c["exact_limit"] else min(1048575, max(255, len(message) + 100))
    opts = [(b"message_format", fmt), (b"datasource_message_max_length", str(min(1048575, max(255, len(message)))).encode()),
            (b"log_message_max_length", str(L).encode())]
    k = c["out"]
    if k == "file":
        opts.append((b"output", b"file:" + o + b"/log"))
    elif k == "filetpl":
        opts.append((b"output", b"file:" + o + b"/log-%{snoopy_literal:x}-%{env:Z}"))
    elif k == "socket":
        opts.append((b"output", b"socket:" + sock_path(c, out).encode()))
    elif k == "file-noarg":
        opts.append((b"output", b"file"))
    elif k != "default":
        opts.append((b"output", k.encode()))
    if CHAINS[c["chain"]] is not None:
        opts.append((b"filter_chain", CHAINS[c["chain"]]))
    if c["errlog"]:
        opts.append((b"error_logging", b"yes"))
    if c["fac"]:
        opts.append((b"syslog_facility", c["fac"].encode()))
    if c["lvl"]:
        opts.append((b"syslog_level", c["lvl"].encode()))
    if c["ident"] is not None:
        opts.append((b"syslog_ident", c["ident"]))
    ident_fmt = c["ident"] if c["ident"] is not None else b"snoopy"
    ident = model.render(model.expand_pieces(ident_fmt, fctx))
    ident_overflow = len(ident) > 255       # beyond the fixed ident limit only the bound is required (C05's subject)
    return {"ini": gen.render_ini(opts), "environ": environ, "path": path, "argv": argv, "message": message,
            "dropped": c["chain"] in ("drop", "dropmid"), "ident": ident, "ident_overflow": ident_overflow}


def evaluate(env, c):
    d = env.driver(c.get("variant", "ts-asan"))
    out = d.out
    p = plan(c, out)
    if any(len(l) > 1022 for l in p["ini"].split(b"\n")):
        return
    path = p["path"]
    ops = [drv.op("x", out + "/log", out + "/log-x-1", out + "/fd1.file", out + "/fd2.file"), drv.op("f"), drv.op("T")] + \
          ([drv.op("g", c["bigpid"])] if c.get("bigpid") else [])
    for fd in (1, 2):
        if c["stdio"] == "file":
            ops.append(drv.op("S", fd, "file", out + "/fd%d.file" % fd))
        else:
            ops.append(drv.op("S", fd, c["stdio"]))
    if c.get("fullbuf"):
        ops.append(drv.op("w", b""))
    ops += [drv.op("K", "devlog", out + "/devlog.sock", 1), drv.op("K", "sock", sock_path(c, out)),
            drv.op("W", "log", out + "/log"), drv.op("W", "logtpl", out + "/log-x-1"),
            drv.op("C", p["ini"]), drv.op_env(p["environ"]), drv.op("Q")]
    k = c.get("repeat", 1)
    launcher = c.get("launcher") and not c["real"]
    if launcher:
        k = max(k, 2) + 1
        ops += [drv.op("v", k), drv.op_exec("e", path, p["argv"], [b"E=1"], ret=-1, err=13)]
    # the same exec k times in one process (a program walking its PATH): k records are due
    for i in range(0 if launcher else k):
        ops.append(drv.op_exec("e" if i % 2 == 0 else "v", path, p["argv"], [b"E=1"], ret=-1, err=13,
                               real=c["real"] and i == k - 1))
    ops.append(drv.op("G"))
    res = d.scenario(ops)
    reports = d.sanitizer_reports()
    if res.timedout or res.signaled or res.exitcode != 0:
        raise Failure("wrapped call crashed or hung", {"result": res.describe(), "sanitizer": [r[:2000] for r in reports[:1]]}, key="crash")
    R = res.of("R")
    if len(R) != k:
        raise Failure("real exec reached %d times for %d calls" % (len(R), k), {"result": res.describe()}, key="count")
    pid = int(res.of("Q")[0].f[2].split()[0])
    pids = [pid] * k
    if launcher:
        V = res.of("v")
        if len(V) != k or any(int(e.f[1]) != 0 for e in V):
            raise Failure("a vfork() child making the call did not end normally", {"children": [(int(e.f[0]), int(e.f[1])) for e in V]}, key="crash")
        pids = [int(e.f[0]) for e in V]
    G = res.of("G")
    entry_dump = None
    if c["real"]:
        # dump taken inside the recorder, right before the image is replaced; late arrivals come as 'L'
        entry_dump = drv.parse_dump(G[0])
        final = {k: v for k, v in entry_dump.items()}
        fdname = {v[1]: k for k, v in entry_dump.items() if v[1] >= 0}
        for e in res.of("L"):
            fd = int(e.f[0])
            name = fdname.get(fd)
            if name is None or not e.f[1]:
                continue
            typ, _, content = final[name]
            final[name] = (typ, fd, content + (drv.split_dgrams(e.f[1]) if typ == 3 else e.f[1]))
        # files are read by us after the process ended
        for name, (typ, fd, content) in list(final.items()):
            if typ == 2:
                pth = {"log": out + "/log", "logtpl": out + "/log-x-1", "fd1": out + "/fd1.file", "fd2": out + "/fd2.file"}[name]
                try:
                    with open(pth, "rb") as f:
                        final[name] = (typ, fd, f.read())
                except FileNotFoundError:
                    final[name] = (typ, fd, None)
    else:
        final = drv.parse_dump(G[-1])
    at_entry = drv.parse_sinkstate(R[-1].f[3])

    def size_of(v):
        typ, fd, content = v
        if content is None:
            return "absent"
        return str(len(content))
    fin_sizes = {k: size_of(v) for k, v in final.items()}
    ent_sizes = {k: v.split(":")[0] for k, v in at_entry.items()}
    msg = p["message"]
    logged = (not p["dropped"]) and len(msg) > 0
    sink = {"file": "log", "filetpl": "logtpl", "stdout": "fd1", "stderr": "fd2", "devtty": "tty", "socket": "sock",
            "devlog": "devlog", "default": "devlog", "bogus": "devlog"}.get(c["out"])
    if c["stdio"] == "pty":
        sink = {"fd1": "pty1", "fd2": "pty2"}.get(sink, sink)
    expect = {}
    for name, (typ, fd, content) in final.items():
        expect[name] = [] if typ == 3 else (b"" if (typ != 2 or name.startswith("fd")) else None)
    if logged and sink:
        if sink in ("sock",):
            expect[sink] = [msg] * k
        elif sink == "devlog":
            fac = gen.FACILITY_NUM[c["fac"] or "AUTHPRIV"]
            lvl = gen.LEVEL_NUM[c["lvl"] or "INFO"]
            expect[sink] = [b"<%d>%s[%d]: %s" % ((fac << 3) | lvl, p["ident"][:255], pid_i, msg) for pid_i in pids]
        else:
            expect[sink] = (msg + b"\n") * k
    observed = {name: content for name, (typ, fd, content) in final.items()}
    if p.get("ident_overflow") and logged and sink == "devlog":
        # normalise: any ident of at most 255 bytes is acceptable here
        norm = []
        for dgm in observed.get("devlog") or []:
            m = re.match(rb"^(<\d+>)(.{0,255}?)(\[(?:%s)\]: )" % b"|".join(b"%d" % x for x in sorted(set(pids))), dgm, re.S)
            norm.append(m.group(1) + p["ident"][:255] + dgm[m.end(2):] if m else dgm)
        observed["devlog"] = norm
    if c["errlog"]:
        # additional separate error records are tolerated at any sink; the real record must still be there
        if logged and sink:
            got = observed[sink]
            ok = all(got.count(x) >= expect[sink].count(x) for x in expect[sink]) if isinstance(got, list) else (got is not None and got.count(msg + b"\n") >= k)
            if not ok:
                raise Failure("record missing/altered at the configured sink (error_logging on)",
                              summarize(observed), summarize(expect), key="record-errlog")
        return
    if observed != expect:
        bad = [k for k in expect if observed.get(k) != expect[k]]
        raise Failure("sinks differ from the expected single record: " + ",".join(bad),
                      summarize({k: observed.get(k) for k in bad}), summarize({k: expect[k] for k in bad}),
                      key="record:" + ("missing" if logged and sink and not observed.get(sink) else "other"))
    if ent_sizes != fin_sizes:
        raise Failure("record was not at its sink yet when the real exec was entered",
                      {"at_real_exec_entry": ent_sizes, "final": fin_sizes}, key="order")


def summarize(d):
    out = {}
    for k, v in d.items():
        if isinstance(v, list):
            out[k] = [x if len(x) < 300 else (x[:150] + b"...(%d bytes)..." % len(x) + x[-60:]) for x in v]
        elif isinstance(v, bytes) and len(v) > 300:
            out[k] = v[:150] + b"...(%d bytes)..." % len(v) + v[-60:]
        else:
            out[k] = v
    return out


def classify(c):
    sizecls = "0" if c["shape"] == "empty" else ("<=1K" if c["n"] <= 1024 else ("<=16K" if c["n"] <= 16384 else ">16K"))
    dropped = c["chain"] in ("drop", "dropmid")
    binary = any(ch < 32 or ch > 126 for ch in c["body"][:2000])
    nondef_syslog = bool(c["fac"] or c["lvl"] or c["ident"])
    logged = not dropped and c["shape"] != "empty"
    nontriv = logged and c["out"] not in ("devnull", "noop", "file-noarg") and (
        c["n"] > 1024 or binary or c["out"] == "filetpl" or nondef_syslog)
    key = (c["out"], sizecls, c["chain"], c["stdio"], c["real"], binary, c.get("repeat", 1)) if nontriv else None
    cls = ["out:" + c["out"], "size:" + sizecls, "chain:" + c["chain"], "stdio:" + c["stdio"],
           "real" if c["real"] else "scripted", "repeat:%d" % c.get("repeat", 1)] + (["stdout-fully-buffered-by-caller"] if c.get("fullbuf") else []) + (["pid:7-digits"] if c.get("bigpid") else []) + (["calls-made-in-vfork-children-of-one-launcher"] if c.get("launcher") and not c["real"] else [])
    if c["errlog"]:
        cls.append("error_logging")
    if binary:
        cls.append("binary")
    return key, cls


def sample(c):
    d = dict(c)
    if len(c["body"]) > 60:
        d["body"] = c["body"][:40] + b"...(%d bytes)" % len(c["body"])
    return d


def _c(**kw):
    base = {"repeat": 1, "sockpad": 0, "out": "file", "stdio": "pipe", "n": 20, "body": b"m" * 20, "shape": "env", "chain": "none", "errlog": False,
            "fac": None, "lvl": None, "ident": None, "identval": b"", "exact_limit": False, "real": False}
    base.update(kw)
    return base


FIXED = [
    _c(out="devlog", bigpid=1234567, n=300, body=b"p" * 300), _c(out="devlog", bigpid=4194303, fac="LOCAL7", lvl="DEBUG"),
    _c(out="stdout", real=True), _c(out="stdout", stdio="file"), _c(out="stdout", stdio="pty", real=True, fullbuf=True), _c(out="stdout", stdio="pty", fullbuf=True),                                 # record must leave the stdio buffer before the exec
    _c(out="file", shape="empty", n=0, body=b""), _c(out="stdout", shape="empty", n=0, body=b""),  # empty message: no record at all
    _c(out="file", repeat=3), _c(out="filetpl", repeat=2),                                       # same call repeated in one process
    _c(out="socket", sockpad=107), _c(out="socket", sockpad=106),
    _c(out="devlog", ident=b"%{env:I}", identval=b"i" * 200, fac="LOCAL3", lvl="DEBUG"),
    _c(out="file", n=16384, body=b"r" * 16384, exact_limit=True), _c(out="file", n=65537, body=b"r" * 65537),
    _c(out="file", chain="dropmid", errlog=False),
]


def main():
    ctx = Ctx(PID, "exploration", RULE)
    b = ctx.run.build("ts-asan")
    ctx.assumptions = ["datagram outputs are exercised up to %d bytes (kernel datagram limits are outside the property)" % DGRAM_MAX,
                       "tty/pty sinks up to %d bytes (nothing drains the terminal while the call runs)" % TTY_MAX,
                       "/dev/log is redirected to a harness socket by interposing connect(); the 'syslog' output is not built by default",
                       "with error_logging on only the presence of the faithful record is required"]
    nw, per = (4, 700) if ctx.quick else (16, 5000)
    pbt.run(ctx, {"ts-asan": b, "nts-asan": ctx.run.build("nts-asan")}, strategy, evaluate, classify, nw, per, sample=sample, fixed_cases=FIXED,
            variants=["ts-asan", "ts-asan", "nts-asan"])
    ctx.finish()


if __name__ == "__main__":
    main_wrapper(main)
