#!/usr/bin/env python3-vt
"""C13 -- registered names bind to their own implementation in every build configuration."""
import os
import random
import re
import shutil
import subprocess
import sys
from concurrent.futures import ThreadPoolExecutor

sys.path.insert(0, os.path.join(os.path.dirname(os.path.abspath(__file__)), "..", "lib"))

import drv
import gen
from build import BuildError, infra_fail
from common import Ctx, Failure, main_wrapper, load_replay

PID = "C13"
RULE = ("generated subsets of the 50 feature switches (36 data sources, 5 filters, 8 outputs incl. syslog, thread safety): all-on, "
        "all-off, every single-feature-off (thorough: also every single-feature-on), seeded random subsets with density 0.1..0.9; each "
        "subset is realised as an edited config.h in a copy of one configured tree and built with the repository's make; two subsets per "
        "run are cross-checked with a real ./configure --disable-... build. Behavioural probes in a process state where all values "
        "differ (ruid/euid/rgid/egid distinct, call made in a second thread, tty on stdin, set hostname): for every enabled name X, "
        "%{X} / filter X / output X must behave as X does in the all-on reference build (ids, times and pids compared with the "
        "harness's own readings), and every disabled X must be an unknown name (error text / ignored filter / no record at X's sink). "
        "non-trivial = subset that disables a feature preceding an enabled one in registry order (indices shift); distinct subsets")

FILTER_PROBES = {   # chain -> (state-independent expectation if the filter is enabled); state: ruid 1000, no 'execdrv-like' surprises
    "only_root": ("only_root", False), "only_uid": ("only_uid:0,7", False), "exclude_uid": ("exclude_uid:1000", False),
    "only_tty": ("only_tty", True), "exclude_spawns_of": ("exclude_spawns_of:execdrv", False),
}
FILTER_PASS = {"only_root": None, "only_uid": ("only_uid:1000", True), "exclude_uid": ("exclude_uid:0", True),
               "only_tty": None, "exclude_spawns_of": ("exclude_spawns_of:nosuch", True)}
DS_ARGS = {"cgroup": b":1", "env": b":PROBE", "snoopy_literal": b":lit", "datetime": b":%Y"}


def features(config_h):
    txt = open(config_h).read()
    ds = sorted(set(re.findall(r"SNOOPY_CONF_DATASOURCE_ENABLED_([a-z_]+)", txt)))
    fl = sorted(set(re.findall(r"SNOOPY_CONF_FILTER_ENABLED_([a-z_]+)", txt)))
    out = sorted(set(re.findall(r"SNOOPY_CONF_OUTPUT_ENABLED_([a-z_]+)", txt)))
    return ds, fl, out


def edit_config_h(path, off):
    """off: set of macro names to switch off."""
    txt = open(path).read()
    for m in off:
        txt = re.sub(r"^#define %s 1$" % re.escape(m), "/* #undef %s */" % m, txt, flags=re.M)
    open(path, "w").write(txt)


def macro(kind, name):
    if kind == "ts":
        return "SNOOPY_CONF_THREAD_SAFETY_ENABLED"
    return "SNOOPY_CONF_%s_ENABLED_%s" % ({"ds": "DATASOURCE", "fl": "FILTER", "out": "OUTPUT"}[kind], name)


def build_subset(run, base, idx, off):
    dst = os.path.join(run.dir, "sub-%d" % idx)
    subprocess.run(["cp", "-a", base["src"], dst], check=True)
    edit_config_h(os.path.join(dst, "config.h"), off)
    env = dict(os.environ)
    env.pop("MAKEFLAGS", None)
    for t in ("lib", "src"):
        p = subprocess.run(["make", "-j3", "-C", t], cwd=dst, env=env, stdout=subprocess.PIPE, stderr=subprocess.STDOUT)
        if p.returncode != 0:
            return {"failed": p.stdout.decode("utf-8", "replace")[-1500:], "src": dst}
    return {"name": "sub-%d" % idx, "variant": "ts-asan", "src": dst, "lib": os.path.join(dst, "src", ".libs", "libsnoopy.so"),
            "ctl": os.path.join(dst, "src", "cli", "snoopyctl"), "asan": True, "tsan": False, "cc": "gcc"}


def choose_out(enabled, out):
    """An enabled output the probes can observe: (option value, sink name, kind) or None."""
    o = out.encode()
    for name, val, sink, kind in (("socket", b"socket:" + o + b"/sock", "sock", "dgram"), ("file", b"file:" + o + b"/log", "log", "file"),
                                  ("stdout", b"stdout", "fd1", "stream"), ("stderr", b"stderr", "fd2", "stream")):
        if ("out", name) in enabled:
            return val, sink, kind
    return None


def records_of(dump, sink, kind):
    c = dump[sink][2]
    if kind == "dgram":
        return list(c)
    if c is None:
        return []
    return c.split(b"\n")[:-1]


def probe(run, b, feats, enabled, ref=None):
    """Run all probes against build b.  Returns dict name -> observation."""
    ds, fl, outs = feats
    d = drv.Driver(run, b)
    out = d.out
    obs = {}
    po = choose_out(enabled, out)
    obs["_observable"] = po is not None
    m = re.search(r'#define SNOOPY_CONFIGURE_COMMAND "(.*)"\n', open(os.path.join(b["src"], "config.h")).read())
    obs["_cfgcmd"] = m.group(1).encode().replace(b'\\"', b'"')[:2047] if m else b""
    try:
        base = [drv.op("f"), drv.op("n", b"probe-host"), drv.op("S", 0, "pty", 1), drv.op("S", 1, "pipe"), drv.op("S", 2, "pipe"),
                drv.op("K", "devlog", out + "/devlog.sock", 1), drv.op("K", "sock", out + "/sock"),
                drv.op("W", "log", out + "/log"), drv.op_env([b"PROBE=probe-value", b"LOGNAME=lgn", b"TZ=UTC"]),
                drv.op("H", out), drv.op("U", 2, 1, 1, 1000, 33, 0, 1), drv.op("Q")]
        # data sources: one call per name, made in a second thread
        ops = [drv.op("x", out + "/log")] + list(base)
        for i, name in enumerate(ds):
            tag = b"%{" + name.encode() + DS_ARGS.get(name, b"") + b"}"
            ini = gen.render_ini([(b"output", po[0] if po else b"noop"), (b"message_format", b"V=" + tag)])
            ops += [drv.op("U", -1, -1, -1, -1, 0, -1), drv.op("C", ini), drv.op("U", -1, -1, -1, 1000, 33, 0),
                    drv.op("Z", 1, 0), drv.op_exec("e", b"/bin/probe", [b"probe", b"x"], [], ret=-1, err=2, tno=0, callno=i)]
        ops.append(drv.op("G"))
        res = d.scenario(ops)
        rep = d.sanitizer_reports()
        if not res.clean or not res.of("G"):
            raise Failure("probe process crashed in this build configuration", {"result": res.describe(), "sanitizer": [r[:1500] for r in rep[:1]]}, key="crash")
        Q = res.of("Q")[0].f
        Rs = res.of("R")
        dg = records_of(drv.parse_dump(res.of("G")[-1]), po[1], po[2]) if po else []
        # datagrams arrive in call order; an empty message produces none -> match by count when possible
        obs["_Q"] = Q
        obs["_R"] = Rs
        if not po:
            pass
        elif len(dg) == len(ds):
            for name, m in zip(ds, dg):
                obs["ds:" + name] = m[2:] if m.startswith(b"V=") else m
        else:
            raise Failure("expected one record per data-source probe (%d), got %d" % (len(ds), len(dg)), {"records": [x[:60] for x in dg[:50]]}, key="count")
        # filters
        for name in fl:
            for tbl in (FILTER_PROBES, FILTER_PASS):
                pr = tbl.get(name)
                if not pr:
                    continue
                if not po:
                    continue
                ini = gen.render_ini([(b"output", po[0]), (b"message_format", b"F"), (b"filter_chain", pr[0].encode())])
                ops = [drv.op("x", out + "/log")] + base[:-1] + [drv.op("U", -1, -1, -1, -1, 0, -1), drv.op("C", ini), drv.op("U", -1, -1, -1, 1000, 33, 0),
                                                                 drv.op_exec("e", b"/bin/probe", [b"p"], [], ret=-1, err=2), drv.op("G")]
                r2 = d.scenario(ops)
                d.sanitizer_reports()
                if not r2.clean or not r2.of("G"):
                    raise Failure("filter probe crashed (%s)" % pr[0], {"result": r2.describe()}, key="crash")
                obs["fl:%s:%s" % (name, pr[0])] = records_of(drv.parse_dump(r2.of("G")[-1]), po[1], po[2]) == [b"F"]
        # outputs
        sinkof = {"devlog": "devlog", "socket": "sock", "file": "log", "stdout": "fd1", "stderr": "fd2", "devtty": "tty", "devnull": None,
                  "syslog": None, "noop": None}
        for name in outs + ["noop"]:
            arg = {"socket": b":" + out.encode() + b"/sock", "file": b":" + out.encode() + b"/log"}.get(name, b"")
            ini = gen.render_ini([(b"output", name.encode() + arg), (b"message_format", b"O")])
            ops = [drv.op("x", out + "/log"), drv.op("f"), drv.op("T"), drv.op("S", 1, "pipe"), drv.op("S", 2, "pipe"),
                   drv.op("K", "devlog", out + "/devlog.sock", 1), drv.op("K", "sock", out + "/sock"), drv.op("W", "log", out + "/log"),
                   drv.op("C", ini), drv.op_exec("e", b"/bin/probe", [b"p"], [], ret=-1, err=2), drv.op("L"), drv.op("G")]
            r3 = d.scenario(ops)
            d.sanitizer_reports()
            if not r3.clean or not r3.of("G"):
                raise Failure("output probe crashed (%s)" % name, {"result": r3.describe()}, key="crash")
            dump = drv.parse_dump(r3.of("G")[-1])
            where = sorted(n for n, (t, fd, c) in dump.items() if c)
            obs["out:" + name] = where
    finally:
        d.close()
    return obs


def judge(obs, ref, feats, enabled):
    ds, fl, outs = feats
    Q = obs["_Q"]
    ru, eu, su = Q[0].split()
    rg, eg, sg = Q[1].split()
    pid, ppid, sid, ktid = Q[2].split()
    bad = {}
    for i, name in enumerate(ds):
        if not obs["_observable"]:
            break
        got = obs["ds:" + name]
        if ("ds", name) not in enabled:
            want = b"[ERROR: Data source '" + name.encode() + b"' not found.]"
            if got != want:
                bad["%{" + name + "}"] = {"got": got[:120], "expected": "unknown data source (feature switched off)"}
            continue
        R = obs["_R"][i]
        absolute = {"snoopy_literal": b"lit", "env": b"probe-value", "cmdline": b"probe x", "filename": b"/bin/probe",
                    "failure": b"[ERROR: Data source 'failure' failed with the following error message: 'Artificial datasource failure triggered']"}
        if name in absolute and got != absolute[name]:
            bad["%{" + name + "}"] = {"got": got[:120], "expected": absolute[name]}
            continue
        special = {"pid": pid, "ppid": ppid, "sid": sid, "uid": ru, "euid": eu, "gid": rg, "egid": eg, "tid_kernel": R.f[7], "tid": R.f[8],
                   "cwd": Q[4], "tty": Q[6], "tty_uid": Q[7], "hostname": Q[5], "snoopy_configure_command": obs["_cfgcmd"]}
        if name in special:
            if got != special[name]:
                bad["%{" + name + "}"] = {"got": got[:120], "expected": special[name]}
        elif name in ("timestamp", "timestamp_ms", "timestamp_us", "datetime"):
            t = float(Q[8])
            okv = {"timestamp": lambda v: abs(int(v) - t) < 30, "timestamp_ms": lambda v: 0 <= int(v) < 1000 and len(v) <= 3,
                   "timestamp_us": lambda v: 0 <= int(v) < 1000000, "datetime": lambda v: re.match(rb"^20\d\d$", v) is not None}[name]
            try:
                ok = okv(got)
            except ValueError:
                ok = False
            if not ok:
                bad["%{" + name + "}"] = {"got": got[:120], "expected": "value of " + name}
        else:
            want = ref["ds:" + name]
            if got != want:
                bad["%{" + name + "}"] = {"got": got[:120], "expected_as_in_reference_build": want[:120]}
    for name in fl:
        for tbl in (FILTER_PROBES, FILTER_PASS):
            pr = tbl.get(name)
            if not pr or not obs["_observable"]:
                continue
            got = obs["fl:%s:%s" % (name, pr[0])]
            want = pr[1] if ("fl", name) in enabled else True      # a switched-off filter is an unknown name: ignored
            if got != want:
                bad["filter " + pr[0]] = {"logged": got, "expected_logged": want}
    # absolute expectations: where the record of output X lands (nothing observable for devnull / noop / syslog(3))
    SINK = {"devlog": ["devlog"], "socket": ["sock"], "file": ["log"], "stdout": ["fd1"], "stderr": ["fd2"], "devtty": ["tty"], "devnull": [],
            "syslog": [], "noop": []}
    for name in outs + ["noop"]:
        got = obs["out:" + name]
        if ("out", name) in enabled or name == "noop":
            want = SINK[name]
        else:
            want = SINK["devlog"] if ("out", "devlog") in enabled else []      # unknown output name -> built-in default output
        if got != want:
            bad["output " + name] = {"sinks_with_data": got, "expected": want}
    return bad


def main():
    ctx = Ctx(PID, "exploration", RULE)
    run = ctx.run
    try:
        base = run.build("ts-asan", extra_configure=["--enable-output-syslog"], name="base-all-on")
    except BuildError as e:
        infra_fail(str(e))
    feats = features(os.path.join(base["src"], "config.h"))
    ds, fl, outs = feats
    allf = [("ds", n) for n in ds] + [("fl", n) for n in fl] + [("out", n) for n in outs] + [("ts", "thread_safety")]
    ctx.extra["feature_switches"] = len(allf)
    ctx.assumptions = ["a feature subset is realised by editing config.h of a configured all-on tree (the registries are guarded by these macros); "
                       "sources of switched-off features are still compiled but unreferenced - two subsets per run are cross-checked with a real "
                       "./configure --disable-... build", "reference behaviour = the all-on build in the same process state (its own bindings are "
                       "C12's subject)", "ipaddr / systemd_unit_name / domain may be indistinguishable in this sandbox (same placeholder text)",
                       "exploration of sampled subsets, not a proof over all 2^50 combinations"]
    rng = random.Random(ctx.seed)
    subsets = []
    if ctx.replay:
        case, _ = load_replay(ctx.replay)
        subsets = [("replay", set(tuple(x) for x in case["off"]))]
    else:
        subsets.append(("all-off", set(allf)))
        singles = list(allf)
        rng.shuffle(singles)
        # every single-feature-off build in both tiers: an entry that slipped under ANOTHER feature's guard shows exactly there
        for f in singles:
            subsets.append(("single-off:%s:%s" % f, {f}))
        # thread safety off while snoopy_threads stays on, and a few structured ones
        subsets.append(("ts-off", {("ts", "thread_safety")}))
        if not ctx.quick:
            for f in singles:
                subsets.append(("single-on:%s:%s" % f, set(allf) - {f}))
        for i in range(14 if ctx.quick else 150):
            dens = rng.choice([0.1, 0.3, 0.5, 0.7, 0.9])
            subsets.append(("random-%d" % i, {f for f in allf if rng.random() < dens}))
    ref_obs = probe(run, base, feats, set(allf))
    badref = judge(ref_obs, ref_obs, feats, set(allf))
    ctx.count(("all-on",), ["all-on"], sample={"subset": "all-on", "off": []})
    if badref:
        ctx.violation({"off": []}, badref, None, "all-on build: a name does not behave as itself")
        ctx.finish()

    def work(item):
        idx, (label, off) = item
        offm = {macro(*f) for f in off}
        b = build_subset(run, base, idx, offm)
        try:
            if "failed" in b:
                return label, off, {"build": b["failed"]}, "build"
            enabled = set(allf) - set(off)
            if ("ts", "thread_safety") in off:
                enabled.discard(("ds", "snoopy_threads"))       # gated by thread safety
            obs = probe(run, b, feats, enabled)
            return label, off, judge(obs, ref_obs, feats, enabled), None
        except Failure as f:
            return label, off, {"failure": f.what, "detail": f.observed}, "failure"
        finally:
            shutil.rmtree(b["src"], ignore_errors=True)

    with ThreadPoolExecutor(max_workers=16) as ex:
        results = list(ex.map(work, list(enumerate(subsets))))
    order = [f for f in allf]
    for label, off, bad, kind in results:
        # non-trivial: a switched-off feature precedes an enabled one in its registry
        shifts = False
        for k in ("ds", "fl", "out"):
            names = [f for f in order if f[0] == k]
            seen_off = False
            for f in names:
                if f in off:
                    seen_off = True
                elif seen_off:
                    shifts = True
        ctx.count(tuple(sorted(off)) if shifts else None, [label.split(":")[0].split("-")[0] if not label.startswith("single") else label.split(":")[0],
                                                           "off:%d" % (len(off) // 10 * 10)], sample={"subset": label, "off": sorted("%s:%s" % f for f in off)[:50]})
        if kind == "build":
            # a subset that does not compile is reported but is not a property verdict (configure may forbid it)
            ctx.inconclusive.append("subset %s does not build: %s" % (label, bad["build"][-300:]))
            continue
        if bad and len(ctx.violations) < 3:
            ctx.violation({"off": sorted(off)}, bad, None, "build with [%s] switched off: a name does not bind to its own implementation" % label)
    # cross-check with the real configure for two subsets (sources are dropped from the link there)
    if not ctx.replay:
        picks = [("ts-off-real", ["--disable-thread-safety"], {("ts", "thread_safety")}),
                 ("real-" + fl[1], ["--disable-filter-" + fl[1], "--disable-datasource-" + ds[3], "--disable-output-" + outs[1]],
                  {("fl", fl[1]), ("ds", ds[3]), ("out", outs[1])})]
        for label, args, off in picks:
            try:
                b = run.build("ts-asan", extra_configure=["--enable-output-syslog"] + args, name=label)
            except BuildError as e:
                ctx.inconclusive.append("real configure %s failed: %s" % (label, str(e)[-300:]))
                continue
            enabled = set(allf) - off
            if ("ts", "thread_safety") in off:
                enabled.discard(("ds", "snoopy_threads"))
            try:
                bad = judge(probe(run, b, feats, enabled), ref_obs, feats, enabled)
            except Failure as f:
                bad = {"failure": f.what, "detail": f.observed}
            ctx.count(("real",) + tuple(sorted(off)), ["real-configure"], sample={"subset": label, "configure": args})
            if bad and len(ctx.violations) < 3:
                ctx.violation({"off": sorted(off), "real_configure": args}, bad, None, "./configure %s: a name does not bind to its own implementation" % " ".join(args))
    ctx.finish()


if __name__ == "__main__":
    main_wrapper(main)
