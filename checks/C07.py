#!/usr/bin/env python3-vt
"""C07 -- the filter chain is a conjunction; a drop silences the call."""
import itertools
import os
import sys

sys.path.insert(0, os.path.join(os.path.dirname(os.path.abspath(__file__)), "..", "lib"))
from hypothesis import strategies as st

import drv
import gen
import model
import pbt
from common import Ctx, Failure, main_wrapper, run_workers, Counters

PID = "C07"
RULE = ("(a) exhaustive: every chain of up to 2 (quick) / 3 (thorough) elements over a fixed 10-spec alphabet x real uid "
        "{0,1000,65534} x stdin {pty,pipe}; (b) Hypothesis chains name[:arg](;name[:arg])* with 0..20 elements, known "
        "and unknown names, empty elements, duplicate/trailing semicolons, bare argument-taking filters, long uid/name "
        "lists, one chain in four with two adjacent elements of one uid filter whose arguments are digit-permutations of each other (first passes, second drops), each run together with a random permutation and a duplication of its elements (metamorphic: same "
        "decision). Oracle: conjunction of harness-computed verdicts (getresuid, isatty(0), /proc ancestors); dropped => "
        "zero bytes at every sink and the real exec still reached once with intact arguments. non-trivial = at least "
        "two known filters with differing verdicts, or an unknown/empty element inside a longer chain; distinct by "
        "(multiset of specs, state)")

ALPHABET = [b"only_root", b"only_uid:1000,65534", b"exclude_uid:0", b"exclude_uid:7", b"only_tty",
            b"exclude_spawns_of:execdrv", b"exclude_spawns_of:nosuch,zz", b"noop", b"bogus", b""]
UIDS = [0, 1000, 65534]


def scenario(out, chain, uid, tty, errmode=False, pre_errno=0, emptyparent=False, stdin=None, pending=False):
    opts = [(b"output", b"file:" + out.encode() + b"/log"), (b"message_format", b"REC %{cmdline}"), (b"filter_chain", chain)]
    if errmode:
        # error logging on and a message that does not fit: a DROPPED call must still be silent
        opts += [(b"error_logging", b"yes"), (b"log_message_max_length", b"255"), (b"message_format", b"REC %{cmdline} " + b"z" * 300)]
        opts.pop(1)
    ini = gen.render_ini(opts)
    ops = [drv.op("x", out + "/log")] + gen.std_sinks(out) + [drv.op("C", ini)]
    if emptyparent:
        # the calling process's parent has an empty kernel name: the process tree cannot be read beyond it, exclude_spawns_of
        # must pass -- and the filters behind it must still be consulted
        ops.append(drv.op("F", b""))
    # stdin: terminal / pipe / closed / null device (tty == True only for "pty")
    ops.append(drv.op("S", 0, stdin or ("pty" if tty else "pipein")))
    if pending:
        # the caller has unflushed bytes in its own stdout buffer: a dropped call (and any call not using the stdout output) leaves them there
        ops.append(drv.op("w", b"PENDING-DATA-OF-THE-CALLER"))
    if uid != 0:
        ops.append(drv.op("U", -1, -1, -1, uid, uid if uid != 1000 else 0, -1))   # real uid set, effective differs for 1000
    # the caller's errno is an input too: whatever it holds when exec is called must not influence the decision
    # (op L flushes the harness's own stdio buffers: left out when the case is about data pending in them)
    ops += [drv.op("Q"), drv.op("e", pre_errno), drv.op_exec("e", b"/bin/x", [b"x", b"y"], [b"K=v"], ret=-1, err=2)] + ([] if pending else [drv.op("L")]) + [drv.op("G")]
    return ops, ini


def run_chain(d, chain, uid, tty, errmode=False, pre_errno=0, emptyparent=False, stdin=None, pending=False):
    """-> (logged: bool)  raises Failure on any other violation."""
    ops, ini = scenario(d.out, chain, uid, tty, errmode, pre_errno, emptyparent, stdin, pending)
    if any(len(l) > 1022 for l in ini.split(b"\n")):
        return None
    res = d.scenario(ops)
    reports = d.sanitizer_reports()
    if not res.clean:
        raise Failure("process crashed or hung evaluating the chain", {"chain": chain, "result": res.describe(),
                                                                       "sanitizer": [r[:2000] for r in reports[:1]]}, key="crash")
    R, T, Q = res.of("R"), res.of("T"), res.of("Q")
    if len(R) != 1 or len(T) != 1 or not (int(R[0].f[2]) & 0xD5) == 0xD5 or int(T[0].f[0]) != -1 or int(T[0].f[1]) != 2:
        raise Failure("the exec itself did not proceed normally", {"chain": chain, "result": res.describe()}, key="exec")
    q = Q[0].f
    ruid = int(q[0].split()[0])
    stdin_tty = q[6] not in (b"\x01NOTTY", b"\x01NOFD")
    ancestors = None
    if not int(q[10]):
        ancestors = q[9].split(b"\n")[:-1]
        if b"" in ancestors:
            ancestors = ancestors[:ancestors.index(b"")]     # unreadable from the first nameless ancestor upwards
    state = {"ruid": ruid, "stdin_tty": stdin_tty, "ancestors": ancestors}
    want = model.chain_decision(chain, state)
    dump = drv.parse_dump(res.of("G")[-1])
    nonempty = {}
    for name, (typ, fd, content) in dump.items():
        if name.startswith("pty0"):
            continue
        if content:
            nonempty[name] = content if isinstance(content, list) else content[:200]
    logged = dump["log"][2] == b"REC x y\n"
    if errmode and want:
        # passing call with error logging: error records are allowed next to the (possibly cut) record; only presence is required
        if not dump["log"][2]:
            raise Failure("chain passes by the model but nothing was logged (error_logging on)", {"chain": chain, "state": state}, key="decision")
        return want
    if want:
        if not logged or set(nonempty) != {"log"}:
            raise Failure("chain passes by the model but the call was not logged exactly once at the output",
                          {"chain": chain, "state": state, "sinks": nonempty}, {"decision": "log"}, key="decision")
    else:
        if nonempty:
            raise Failure("chain drops by the model but output appeared", {"chain": chain, "state": state, "sinks": nonempty},
                          {"decision": "drop, no bytes anywhere"}, key="decision")
    return want


# ------------------------------------------------------------------ random part (Hypothesis)
def strategy():
    @st.composite
    def element(draw):
        k = draw(st.sampled_from(["only_root", "only_uid", "exclude_uid", "only_tty", "exclude_spawns_of", "noop",
                                  "unknown", "empty", "bare"]))
        if k in ("only_uid", "exclude_uid"):
            n = draw(st.sampled_from([1, 1, 2, 3, 40]))
            ids = draw(st.lists(st.sampled_from([0, 1, 7, 999, 1000, 1001, 65534, 65535, 100000]), min_size=n, max_size=n))
            return ("%s:%s" % (k, ",".join(map(str, ids)))).encode()
        if k == "exclude_spawns_of":
            names = draw(st.lists(st.sampled_from(["execdrv", "exec", "execdrvx", "sh", "nosuch", "python3", ""]), min_size=1, max_size=4))
            return ("exclude_spawns_of:" + ",".join(names)).encode()
        if k == "unknown":
            return draw(st.sampled_from([b"bogus", b"ONLY_ROOT", b"only_uidx", b"only_roo", b"bogus:arg", b"noop2", b"x" * 300]))
        if k == "empty":
            return b""
        if k == "bare":
            return draw(st.sampled_from([b"only_uid", b"exclude_uid", b"exclude_spawns_of", b"only_uid:", b"noop:zzz", b"only_root:5"]))
        return k.encode()

    @st.composite
    def case(draw):
        els = draw(st.lists(element(), min_size=0, max_size=20))
        uid = draw(st.sampled_from(UIDS))
        if draw(st.sampled_from([False, False, False, True])):
            # two ADJACENT elements of the same uid filter whose arguments are made of the same characters (same length, same digits,
            # commas in the same places) but name different uids: the first passes for this uid, the second drops
            for _ in range(6):
                items = [str(uid)] + [str(x) for x in draw(st.lists(st.integers(1, 99), min_size=1, max_size=3))]
                digits = draw(st.permutations([ch for it in items for ch in it]))
                other, k = [], 0
                for it in items:
                    other.append("".join(digits[k:k + len(it)]))
                    k += len(it)
                if any(len(o) > 1 and o[0] == "0" for o in other) or uid in [int(o) for o in other]:
                    continue
                a, b = ",".join(items).encode(), ",".join(other).encode()
                pair = draw(st.sampled_from([[b"only_uid:" + a, b"only_uid:" + b], [b"exclude_uid:" + b, b"exclude_uid:" + a]]))
                at = draw(st.integers(0, len(els)))
                els = els[:at] + pair + els[at:]
                break
        perm = draw(st.permutations(els))
        dup = list(els)
        if els:
            for _ in range(draw(st.integers(1, 3))):
                i = draw(st.integers(0, len(els) - 1))
                dup.insert(draw(st.integers(0, len(dup))), els[i])
        trailing = draw(st.sampled_from([b"", b"", b";", b";;"]))
        return {"els": els, "perm": perm, "dup": dup, "trailing": trailing, "uid": uid,
                "tty": draw(st.booleans()), "errmode": draw(st.sampled_from([False, False, False, True])),
                "pre_errno": draw(st.sampled_from([0, 0, 34, 4, 2, 11, 22, 75])),
                "emptyparent": draw(st.sampled_from([False] * 4 + [True])),
                "stdin": draw(st.sampled_from([None, None, None, "closed", "null"])), "pending": draw(st.sampled_from([False, False, True]))}
    return case()


def evaluate(env, c):
    d = env.driver(c.get("variant", "ts-asan"))
    base = b";".join(c["els"]) + c["trailing"]
    em = c.get("errmode", False)
    pe = c.get("pre_errno", 0)
    ep = c.get("emptyparent", False)
    si, pd = c.get("stdin"), c.get("pending", False)
    r0 = run_chain(d, base, c["uid"], c["tty"], em, pe, ep, si, pd)
    if r0 is None:
        return
    for name in ("perm", "dup"):
        ch = b";".join(c[name])
        r = run_chain(d, ch, c["uid"], c["tty"], em, pe, ep, si, pd)
        if r is not None and r != r0:
            # cannot happen if both agree with the model, kept as an independent metamorphic oracle
            raise Failure("decision changed under %s of the chain elements" % name, {"chain": base, "variant": ch}, key="metamorphic")


def verdict_profile(c):
    st_ = {"ruid": c["uid"], "stdin_tty": c["tty"], "ancestors": [b"execdrv", b"sh", b"python3"]}
    vs = []
    for el in c["els"]:
        name, _, arg = el.partition(b":")
        nm = name.decode("latin-1")
        vs.append(model.filter_verdict(nm, arg, st_) if nm in model.KNOWN_FILTERS else None)
    return vs


def classify(c):
    vs = verdict_profile(c)
    known = [v for v in vs if v is not None]
    differing = len(set(known)) > 1
    unknown_inside = len(c["els"]) >= 2 and any(v is None for v in vs)
    nontriv = differing or unknown_inside
    key = (tuple(sorted(c["els"])), c["uid"], c["tty"]) if nontriv else None
    cls = ["uid:%d" % c["uid"], "tty" if c["tty"] else "notty", "len:%d" % min(len(c["els"]), 10)]
    if differing:
        cls.append("mixed-verdicts")
    if unknown_inside:
        cls.append("unknown-or-empty-inside")
    if c["trailing"]:
        cls.append("trailing-semicolon")
    if c.get("errmode"):
        cls.append("error_logging+overlong-message")
    if c.get("stdin"):
        cls.append("stdin:" + c["stdin"])
    if c.get("pending"):
        cls.append("caller-has-unflushed-stdout-data")
    if c.get("emptyparent"):
        cls.append("nameless-parent(tree-unreadable)")
        if any(e.startswith(b"exclude_spawns_of") for e in c["els"][:-1]):
            cls.append("nameless-parent+exclude_spawns_of-not-last")
    return key, cls


# ------------------------------------------------------------------ exhaustive part
_EX = {}


def exhaustive_worker(args):
    idx, nshards, maxlen = args
    ctx = _EX["ctx"]
    env = pbt.Env(ctx.run, _EX["builds"])
    d = env.driver("nts-asan" if idx % 4 == 3 and "nts-asan" in _EX["builds"] else "ts-asan")
    local = Counters(ctx.known, idx)
    fails = []
    n = 0
    for L in range(0, maxlen + 1):
        for combo in itertools.product(range(len(ALPHABET)), repeat=L):
            for uid in UIDS:
                for tty in (False, True):
                    n += 1
                    if n % nshards != idx:
                        continue
                    chain = b";".join(ALPHABET[i] for i in combo)
                    c = {"els": [ALPHABET[i] for i in combo], "uid": uid, "tty": tty, "trailing": b""}
                    key, cls = classify(c)
                    local.count(("ex",) + (key or ("t", chain, uid, tty)) if key else None, ["exhaustive"] + cls,
                                sample={"chain": chain, "uid": uid, "stdin_tty": tty})
                    try:
                        run_chain(d, chain, uid, tty, False, 34 if n % 3 == 0 else 0, n % 5 == 0,
                                  None if tty or n % 4 else ("closed" if n % 8 else "null"), n % 7 == 0)
                    except Failure as f:
                        if len(fails) < 1:
                            fails.append({"case": {"els": c["els"], "perm": c["els"], "dup": c["els"], "trailing": b"",
                                                   "uid": uid, "tty": tty},
                                          "what": "[exhaustive] " + f.what, "observed": f.observed, "expected": f.expected})
    env.close()
    return local.export(), fails


def main():
    ctx = Ctx(PID, "exploration", RULE)
    b, bn = ctx.run.build_many(["ts-asan", "nts-asan"])
    builds = {"ts-asan": b, "nts-asan": bn}
    ctx.assumptions = ["chains contain no whitespace (documented restriction)",
                       "verdicts of known filters are computed by the harness in the same process state (getresuid, ioctl on fd 0, "
                       "/proc comm+PPid walk); uid-list items that are not plain decimals are treated as matching nothing"]
    if not ctx.replay:
        _EX.update({"ctx": ctx, "builds": builds})
        maxlen = 2 if ctx.quick else 3
        nsh = 4 if ctx.quick else 16
        total = 0
        for out, fails in run_workers(exhaustive_worker, nsh, [(i, nsh, maxlen) for i in range(nsh)]):
            ctx.merge(out)
            for f in fails[:1]:
                if not ctx.violations:
                    ctx.violation(f["case"], f["observed"], f["expected"], f["what"])
        ctx.extra["exhaustive_chains_up_to_len"] = maxlen
        ctx.extra["exhaustive_runs"] = ctx.evaluations
        ctx.extra["exhaustive"] = False  # the random part below is not exhaustive
    nw, per = (4, 250) if ctx.quick else (16, 1300)
    pbt.run(ctx, builds, strategy, evaluate, classify, nw, per, variants=["ts-asan", "ts-asan", "nts-asan"])
    ctx.finish()


if __name__ == "__main__":
    main_wrapper(main)
