#!/usr/bin/env python3-vt
"""C09 -- concurrent exec calls from threads stay isolated and complete."""
import hashlib
import itertools
import os
import random
import re
import sys

sys.path.insert(0, os.path.join(os.path.dirname(os.path.abspath(__file__)), "..", "lib"))

import drv
import gen
from common import Ctx, Counters, Failure, confirm, main_wrapper, run_workers, load_replay

PID = "C09"
RULE = ("(a) systematic: 2..4 threads x 1..3 failing exec calls with unique path/argv run under a cooperative scheduler built on the "
        "interposed pthread_mutex_lock/unlock of the library (one thread runs at a time; scheduling points: before each lock, after "
        "each unlock, every call the library makes to one of 107 stateful libc functions (trampolines), real-exec entry, thread "
        "start/exit; outputs file/stdout/stderr/socket, with and without filter chains); schedules = the default run + EVERY single preemption and (2 threads x 1 "
        "call) every pair of preemptions, sampled pairs/triples for larger shapes -- in the plain thread-safe build (record "
        "isolation, deadlock = 'no runnable thread', deterministic) and in the ThreadSanitizer build, where the hand-over between "
        "threads uses raw futexes only (no happens-before edges from the harness) so that an unsynchronised access next to a "
        "switch point is reported deterministically; (b) stress: up to 64 free-running threads released from a barrier under "
        "ThreadSanitizer, formats cycling through every data source, file and stdout outputs, with and without a filter chain of differently named filters; (c) the same call sequences single-threaded in the "
        "non-thread-safe build; (d) free-running threads writing 4..30 KiB records to stdout/stderr connected to a pipe (one page, or 64 KiB) whose reader starts late and reads slowly. non-trivial (a) = schedule whose executed trace interleaves two calls inside the library; "
        "for 2x1 shapes also every directed pair 'thread 0 preempted at one of its close() calls x thread 1 handing back at a point where it owns a descriptor' (one shape with a record too large to send in thread 0); "
        "the process-wide state (umask set to 0002/0000, descriptor table, signal dispositions and mask, cwd, environment) is compared before the threads start and after all calls returned; "
        "distinct by the executed lock/unlock interleaving string")

FMT = b"%{tid}|%{tid_kernel}|%{snoopy_threads}|%{filename}|%{login}|%{cmdline}"
ALL_DS = b"".join(b"%{" + n.encode() + (b":1" if n == "cgroup" else (b":HOME" if n == "env" else b"")) + b"}|" for n in gen.ALL_SOURCES)


ERRFMT = (b"%{datetime:" + b"%c" * 12 + b"};%{datetime:};%{env:NOT_SET};%{failure};%{cgroup:nosuchcontroller};%{ipaddr};%{tty_username};"
          b"%{snoopy_literal:};%{env_all};%{domain};%{systemd_unit_name}|")
CHAINS = {"none": None, "pass": b"noop;exclude_uid:7;only_uid:0", "droplast": b"noop;exclude_uid:7;only_uid:4242",
          "mixed": b"only_uid:0,4,70000;exclude_uid:4,9;exclude_spawns_of:nosuch,zz;only_root"}


def attributable(report):
    """A ThreadSanitizer report counts against the library only if one of the two racing accesses is MADE by the library: by its own
    (instrumented) code, or by an intercepted libc function it calls directly.  Accesses made inside the C library on the C library's
    own state (e.g. the time zone data, guarded by a libc-internal lock the detector cannot see) are not the library's."""
    if "ThreadSanitizer: data race" not in report:
        return False
    blocks = re.split(r"\n\s*\n", report)
    n = 0
    for blk in blocks:
        if not re.search(r"^\s*(Previous )?(atomic )?(read|write) of size", blk, re.I | re.M):
            continue
        n += 1
        frames = re.findall(r"^\s*#(\d+) (.*)$", blk, re.M)
        f = {int(i): t for i, t in frames}
        own = lambda t: t is not None and ("/src-ts-tsan/src/" in t or "libsnoopy" in t)
        if own(f.get(0)) or ("libtsan" in (f.get(0) or "") and own(f.get(1))):
            return True
        if n >= 2:
            break
    return False


def scenario(out, shape, sched, fmt=FMT):
    nt, nc = shape[0], shape[1]
    okind = shape[2] if len(shape) > 2 else "file"
    chain = CHAINS[shape[3]] if len(shape) > 3 else None
    big0 = len(shape) > 4 and shape[4] == "big0"
    if len(shape) > 4 and shape[4] == "errfmt":
        # every data source on its error / fallback path in front of the usual fields (stdin is a terminal without utmp record)
        fmt = ERRFMT + fmt
    if len(shape) > 4 and shape[4] == "utmp":
        # stdin is a terminal WITH a login record carrying a remote address (the driver's private /run/utmp): %{ipaddr} walks the C
        # library's process-wide utmp stream
        fmt = b"%{ipaddr}|%{tty_username}|" + fmt
    oval = {"file": b"file:" + out.encode() + b"/log", "stdout": b"stdout", "stderr": b"stderr", "socket": b"socket:" + out.encode() + b"/sock"}[okind]
    if len(shape) > 4 and shape[4] == "nosink":
        oval = b"socket:" + out.encode() + b"/nobody-listens-here"        # every connect() fails: the error path of the socket-type outputs
    opts = [(b"output", oval), (b"message_format", fmt)]
    if chain:
        opts.append((b"filter_chain", chain))
    if len(shape) > 4 and shape[4] == "errlog":
        # every call raises an internal error (message does not fit) with error logging on: each call emits its own error text
        opts += [(b"error_logging", b"yes"), (b"log_message_max_length", b"255")]
        opts[1] = (b"message_format", fmt + b"|" + b"z" * 300)
    if big0:
        # thread 0's record is larger than a datagram can be: ITS send() fails (EMSGSIZE) -- the other threads' records must not suffer
        opts += [(b"datasource_message_max_length", b"1048575"), (b"log_message_max_length", b"1048575")]
    ini = gen.render_ini(opts)
    ops = [drv.op("x", out + "/log"), drv.op("W", "log", out + "/log"), drv.op("S", 1, "pipe"), drv.op("S", 2, "pipe"), drv.op("K", "sock", out + "/sock"),
           drv.op("C", ini), drv.op_env([b"LOGNAME=lg", b"HOME=/root"]), drv.op("k", "0002")] + \
          ([drv.op("S", 0, "pty")] if len(shape) > 4 and shape[4] in ("errfmt", "utmp") else []) + [drv.op("P")]
    flat = [x for p in sched for x in p]
    ops.append(drv.op("z", nt, *flat))
    for t in range(nt):
        for k in range(nc):
            argv = [b"t%dc%d" % (t, k), b"arg-%d-%d" % (t, k)] + ([b"B" * 300000] if big0 and t == 0 else [])
            if len(shape) > 4 and shape[4] == "nullargv":
                argv = None if (t + k) % 2 == 0 else []          # NULL vector / vector holding only NULL: cmdline falls back to the path
            ops.append(drv.op_exec("e" if (t + k) % 2 == 0 else "v", b"/bin/t%dc%d" % (t, k), argv, [b"E=%d" % t],
                                   ret=-1, err=2, tno=t, callno=k))
    ops += [drv.op("P"), drv.op_exec("e", b"/bin/lone", [b"lone", b"call"], [], ret=-1, err=2), drv.op("L"), drv.op("G")]
    return ops


def interleaves(trace):
    """does the executed trace switch threads while a call is inside the library (between its first lock and the real exec)?"""
    cur = None
    inside = set()
    sw = False
    for i in range(0, len(trace) - 1, 2):
        t, k = trace[i], trace[i + 1]
        if k == "l":
            inside.add(t)
        if k == "r" or k == "x":
            inside.discard(t)
        if cur is not None and t != cur and (cur in inside or t in inside):
            sw = True
        cur = t
    return sw


def run_sched(d, shape, sched, tsan=False):
    nt, nc = shape[0], shape[1]
    okind = shape[2] if len(shape) > 2 else "file"
    chaink = shape[3] if len(shape) > 3 else "none"
    res = d.scenario(scenario(d.out, shape, sched))
    reports = d.sanitizer_reports()
    what = "%d threads x %d calls, output %s, chain %s, preemptions %s" % (nt, nc, okind, chaink, sched)
    Z = res.of("z")
    if res.timedout:
        raise Failure("calls did not complete (%s)" % what, {"result": res.describe()}, key="hang")
    if Z and int(Z[0].f[2]):
        raise Failure("deadlock: %s (%s)" % (Z[0].f[3].decode(), what), {"trace": Z[0].f[0][-120:]}, key="deadlock")
    if tsan:
        races = [r for r in reports if "ThreadSanitizer: data race" in r]
        mine = [r for r in races if attributable(r)]
        if mine:
            m = re.search(r"src-ts-tsan/(src/[a-zA-Z0-9_/.-]+\.c:\d+)", mine[0])
            raise Failure("data race reported by ThreadSanitizer at %s (%s)" % (m.group(1) if m else "?", what),
                          {"report": mine[0][:1800]}, key="race:" + (m.group(1) if m else "?"))
        if races and res.exitcode == 66:
            # a report without any snoopy frame: harness or libc noise, not a verdict
            res.status = 0
    if not res.clean or not Z:
        raise Failure("process crashed (%s)" % what, {"result": res.describe(), "sanitizer": [r[:1500] for r in reports[:1]]}, key="crash")
    trace = Z[0].f[0].decode()
    # descriptor discipline, from the executed trace: no thread ever makes more descriptor-closing calls than it made descriptor-creating
    # ones before (a repeated close() is harmless alone, but closes whatever another thread opened in between)
    bal = {}
    for i in range(0, len(trace) - 1, 2):
        t, k = trace[i], trace[i + 1]
        if k == "O":
            bal[t] = bal.get(t, 0) + 1
        elif k == "C":
            bal[t] = bal.get(t, 0) - 1
            if bal[t] < 0:
                raise Failure("thread %s makes a descriptor-closing call without a descriptor of its own left to close (repeated close) (%s)" % (t, what),
                              {"trace_up_to_there": trace[max(0, i - 60):i + 2]}, key="double-close")
    Ps = res.of("P")
    if len(Ps) == 2 and Ps[0].f[0] != Ps[1].f[0]:
        # process-wide state (umask 0002, descriptors, signal dispositions, cwd, environment) after all calls returned
        import C16
        raise Failure("process-wide state differs after the concurrent calls returned (%s)" % what, C16.diff_state(Ps[0].f[0], Ps[1].f[0]), key="process-state")
    Rs = res.of("R")
    if len(Rs) != nt * nc + 1:
        raise Failure("%d of %d calls reached the real exec (%s)" % (len(Rs), nt * nc + 1, what), None, key="count")
    ids = {}
    for R in Rs[:-1]:
        ids[(int(R.f[5]), int(R.f[6]))] = (R.f[7], R.f[8])
    dump = drv.parse_dump(res.of("G")[-1])
    if okind == "socket":
        lines = list(dump["sock"][2])
    else:
        content = dump[{"file": "log", "stdout": "fd1", "stderr": "fd2"}[okind]][2] or b""
        lines = content.split(b"\n")[:-1]
        if content and not content.endswith(b"\n"):
            lines.append(content.split(b"\n")[-1])
    if len(shape) > 4 and shape[4] == "nosink":
        if lines:
            raise Failure("record delivered although nobody listens at the configured socket (%s)" % what, {"records": [l[:120] for l in lines[:4]]}, key="chain")
        return trace, int(Z[0].f[1])
    if chaink == "droplast":
        # every call is dropped by the last filter of the chain: nothing at all may be logged
        if lines:
            raise Failure("call logged although the chain drops it when evaluated alone (%s)" % what, {"records": [l[:120] for l in lines[:4]]}, key="chain")
        return trace, int(Z[0].f[1])
    big0 = len(shape) > 4 and shape[4] == "big0"
    if len(shape) > 4 and shape[4] == "errlog":
        # records are cut and accompanied by error texts: every call must produce as many lines as it does undisturbed
        want_lines = run_sched.expected_lines.get(tuple(shape))
        if want_lines is None:
            if not sched:
                run_sched.expected_lines[tuple(shape)] = len(lines)
        elif len(lines) != want_lines:
            raise Failure("%d output lines, the undisturbed run of the same calls gives %d (error texts of one call lost or duplicated) (%s)" % (len(lines), want_lines, what),
                          {"lines": [l[:100] for l in lines[:8]]}, key="errlines")
        return trace, int(Z[0].f[1])
    nrec = nt * nc + 1 - (nc if big0 else 0)        # (thread 0's oversized records cannot be delivered)
    if len(lines) != nrec:
        raise Failure("%d records for %d deliverable calls (%s)" % (len(lines), nrec, what), {"records": [l[:120] for l in lines[:8]]}, key="records")
    seen = set()
    if len(shape) > 4 and shape[4] == "utmp":
        # every call is made on the same terminal: what the lone call afterwards reports is what each of them reports alone
        alone = lines[-1].split(b"|")[:2]
        if not re.match(rb"^10\.77\.\d+\.\d+$", alone[0]):
            raise Failure("harness: the terminal's login record was not found by the lone call (%s)" % what, {"record": lines[-1][:200]}, key="harness")
        for ln in lines[:-1]:
            if ln.split(b"|")[:2] != alone:
                raise Failure("%%{ipaddr}/%%{tty_username} of a concurrent call differ from what the same call reports alone (%s)" % what,
                              {"record": ln[:200]}, {"ipaddr|tty_username": b"|".join(alone)}, key="isolation-utmp")
    for ln in lines[:-1]:
        f = ln.split(b"|")[-6:]
        if len(f) != 6:
            raise Failure("garbled record (%s)" % what, {"record": ln[:200]}, key="garbled")
        m = re.match(rb"^/bin/t(\d)c(\d)$", f[3])
        if not m:
            raise Failure("record with a foreign/garbled path (%s)" % what, {"record": ln[:200]}, key="garbled")
        t, k = int(m.group(1)), int(m.group(2))
        ktid, ptid = ids.get((t, k), (b"?", b"?"))
        want = [ptid, ktid, None, b"/bin/t%dc%d" % (t, k), b"lg", b"t%dc%d arg-%d-%d" % (t, k, t, k)]
        if len(shape) > 4 and shape[4] == "nullargv":
            want[5] = b"/bin/t%dc%d" % (t, k)
        for i, w in enumerate(want):
            if w is not None and f[i] != w:
                raise Failure("record of call t%dc%d carries a value that is not its own (field %d) (%s)" % (t, k, i, what),
                              {"record": ln[:200]}, {"expected_field": w}, key="isolation")
        try:
            n = int(f[2])
        except ValueError:
            n = -1
        if not 1 <= n <= nt:
            raise Failure("%%{snoopy_threads}=%s outside [1,%d] (%s)" % (f[2].decode(), nt, what), None, key="threads")
        if (t, k) in seen:
            raise Failure("two records for one call (%s)" % what, None, key="dup")
        seen.add((t, k))
    last = lines[-1].split(b"|")[-6:]
    if len(last) != 6 or last[2] != b"1" or last[3] != b"/bin/lone":
        raise Failure("after all calls returned a lone call does not see exactly one registered thread (%s)" % what,
                      {"record": lines[-1][:200]}, key="leftover")
    return trace, int(Z[0].f[1])


run_sched.expected_lines = {}
_W = {}


def worker(args):
    idx, jobs = args
    ctx = _W["ctx"]
    local = Counters(ctx.known, idx)
    drivers = {}
    fails = []
    for variant, shape, sched in jobs:
        if variant not in drivers:
            drivers[variant] = drv.Driver(ctx.run, _W["builds"][variant], extra_preload=[os.path.join(drv.BUILD, "libsched.so")], timeout_ms=30000)
        d = drivers[variant]
        if len(shape) > 4 and shape[4] == "utmp":
            if (variant, "utmp") not in drivers:
                drivers[(variant, "utmp")] = drv.Driver(ctx.run, _W["builds"][variant], extra_preload=[os.path.join(drv.BUILD, "libsched.so")], timeout_ms=30000, utmp=utmp_file(ctx))
            d = drivers[(variant, "utmp")]
        case = {"variant": variant, "shape": list(shape), "sched": [list(p) for p in sched]}
        try:
            trace, steps = run_sched(d, shape, sched, tsan=(variant == "ts-tsan"))
            h = hashlib.sha1((variant + trace).encode()).hexdigest()[:16]
            local.count(h if interleaves(trace) else None, [variant, "shape:%dx%d" % tuple(shape[:2]), "preemptions:%d" % len(sched)] +
                        (["out:" + shape[2], "chain:" + shape[3]] if len(shape) > 2 else []) + (["shape:" + shape[4]] if len(shape) > 4 else []),
                        sample={"variant": variant, "shape": list(shape), "preemptions": [list(p) for p in sched], "trace_head": trace[:80]})
        except Failure as f:
            local.count("fail:" + f.key, [variant, "violating"], sample=case)
            if local.is_known(f.key):
                local.known_hit(f.key, f.what)
            elif not any(x["key"] == f.key for x in fails):
                ok, last = confirm(lambda c: run_sched(d, tuple(c["shape"]), [tuple(p) for p in c["sched"]], tsan=(c["variant"] == "ts-tsan")), case,
                                   times=2)
                if ok:
                    fails.append({"key": f.key, "case": case, "what": "[%s] %s" % (variant, last.what), "observed": last.observed, "expected": last.expected})
                else:
                    local.inconclusive.append("not reproduced: " + f.what)
    for d in drivers.values():
        d.close()
    return local.export(), fails


def utmp_file(ctx):
    p = os.path.join(ctx.run.dir, "utmp.generated")
    if not os.path.exists(p):
        drv.make_utmp(p + ".tmp")
        os.rename(p + ".tmp", p)
    return p


def steps_of(ctx, builds, shape):
    d = drv.Driver(ctx.run, builds["ts-plain"], extra_preload=[os.path.join(drv.BUILD, "libsched.so")],
                   utmp=utmp_file(ctx) if len(shape) > 4 and shape[4] == "utmp" else None)
    try:
        trace, steps = run_sched(d, shape, [])
    finally:
        d.close()
    steps_of.trace = trace
    return steps


def descriptor_window_pairs(trace):
    """Directed two-preemption schedules for 2 threads: thread 0 is preempted at one of its descriptor-closing calls, thread 1 runs up to a
    point at which it owns a descriptor (between one of its descriptor-creating calls and the matching close) and hands back -- the
    schedules under which a stray or repeated close() in one thread hits a descriptor of the other."""
    pts = [(trace[i], trace[i + 1]) for i in range(0, len(trace) - 1, 2) if trace[i + 1] not in "sxb"]
    t0 = [k for t, k in pts if t == "0"]
    t1 = [k for t, k in pts if t == "1"]
    closes = [i + 1 for i, k in enumerate(t0) if k == "C"]
    owning, depth = [], 0
    for j, k in enumerate(t1):
        if k == "O":
            depth += 1
        elif depth > 0:
            owning.append(j + 1)
        if k == "C" and depth > 0:
            depth -= 1
    return [[(a, 1), (a + j, 0)] for a in closes for j in owning]


def lock_window_triples(trace):
    """Directed three-preemption schedules for 2 threads: thread 0 gets past its first critical section and is preempted; thread 1 runs up
    to one of ITS lock acquisitions and is preempted there; thread 0 carries on to a point where it holds a lock of the library and hands
    back -- thread 1 then meets a lock that is really taken (the only way to reach code that behaves differently under contention:
    trylock fall-backs, timed locks, 'skip if busy' shortcuts)."""
    pts = [(trace[i], trace[i + 1]) for i in range(0, len(trace) - 1, 2) if trace[i + 1] not in "sxb"]
    t0 = [k for t, k in pts if t == "0"]
    t1 = [k for t, k in pts if t == "1"]
    first_u = next((i + 1 for i, k in enumerate(t0) if k == "u"), None)
    if first_u is None:
        return []
    starts = [first_u] + ([len(t0) // 2] if len(t0) // 2 > first_u else [])
    before_lock = [j for j, k in enumerate(t1) if k == "l" and j > 0]
    holding = [i + 1 for i, k in enumerate(t0) if k == "L"]
    out = []
    for i1 in starts:
        for j2 in before_lock:
            for i3 in holding:
                if i3 > i1:
                    out.append([(i1, 1), (i1 + j2, 0), (i3 + j2, 1)])
    return out


def stress(ctx, builds, rounds, nthreads):
    d = drv.Driver(ctx.run, builds["ts-tsan"], timeout_ms=120000)
    out = d.out
    try:
        for r in range(rounds):
            fmts = [FMT, ALL_DS, b"%{login}|%{tid}|%{cmdline}|%{env_all}|%{username}|%{rpname}", b"%{datetime}|%{tid}|%{datetime:%s}|%{cmdline}"]
            okind = ["file", "file", "file", "stdout"][r % 4]
            opts = [(b"output", b"file:" + out.encode() + b"/log" if okind == "file" else b"stdout"), (b"message_format", fmts[r % len(fmts)])]
            if r % 2:
                opts.append((b"filter_chain", CHAINS["mixed"]))
            ini = gen.render_ini(opts)
            ops = [drv.op("x", out + "/log"), drv.op("W", "log", out + "/log"), drv.op("S", 1, "pipe"), drv.op("C", ini), drv.op_env([b"LOGNAME=lg", b"HOME=/root"]),
                   drv.op("k", "0000" if r % 2 else "0002"), drv.op("P"), drv.op("Z", nthreads, 1)]
            for t in range(nthreads):
                for k in range(3):
                    ops.append(drv.op_exec("e", b"/bin/s%dc%d" % (t, k), [b"s%dc%d" % (t, k)], [], ret=-1, err=2, tno=t, callno=k))
            ops += [drv.op("P"), drv.op_exec("e", b"/bin/lone", [b"lone"], [], ret=-1, err=2), drv.op("G")]
            res = d.scenario(ops)
            reports = d.sanitizer_reports()
            ctx.evaluations += 1
            ctx.classes["stress-round"] = ctx.classes.get("stress-round", 0) + 1
            what = "stress round %d, %d free-running threads" % (r, nthreads)
            mine = [x for x in reports if attributable(x)]
            if mine:
                m = re.search(r"src-ts-tsan/(src/[a-zA-Z0-9_/.-]+\.c:\d+)", mine[0])
                return {"what": "data race reported by ThreadSanitizer at %s under stress (%s)" % (m.group(1) if m else "?", what), "observed": {"report": mine[0][:1800]}}
            if not res.clean and not (res.exitcode == 66 and reports):
                return {"what": "crash or hang under stress (%s)" % what, "observed": {"result": res.describe(), "sanitizer": [x[:1500] for x in reports[:1]]}}
            Ps = res.of("P")
            if len(Ps) == 2 and Ps[0].f[0] != Ps[1].f[0]:
                import C16
                return {"what": "process-wide state differs after the concurrent calls returned (%s)" % what, "observed": C16.diff_state(Ps[0].f[0], Ps[1].f[0])}
            dump = drv.parse_dump(res.of("G")[-1])
            lines = (dump["log" if okind == "file" else "fd1"][2] or b"").split(b"\n")[:-1]
            if len(lines) != nthreads * 3 + 1:
                return {"what": "%d records for %d calls (%s, output %s)" % (len(lines), nthreads * 3 + 1, what, okind), "observed": {"records": [l[:100] for l in lines[:5]]}}
            if r % 4 in (0, 3):
                # formats ending in the command line: every record is whole and belongs to exactly one call
                tails = sorted(l.rsplit(b"|", 1)[-1] for l in lines)
                want = sorted([b"s%dc%d" % (t, k) for t in range(nthreads) for k in range(3)] + [b"lone"])
                if tails != want:
                    bad = [l[:120] for l in lines if l.rsplit(b"|", 1)[-1] not in want][:3]
                    return {"what": "records are not one whole record per call (%s, output %s)" % (what, okind), "observed": {"odd_records": bad}}
    finally:
        d.close()
    return None


def slow_reader(ctx, builds, okind, nthreads, ncalls, size, delay_ms, pipesz=4096, timer_us=0):
    """free-running threads, output stdout/stderr into an ordinary pipe whose reader starts late and reads slowly, records larger than
    PIPE_BUF: every line that arrives is one whole record of one call (the writers have to wait for room; they must not interleave)"""
    d = drv.Driver(ctx.run, builds["ts-plain"], timeout_ms=120000)
    out = d.out
    try:
        fd = 1 if okind == "stdout" else 2
        ini = gen.render_ini([(b"output", okind.encode()), (b"message_format", b"%{filename}|%{cmdline}"),
                              (b"datasource_message_max_length", b"65535"), (b"log_message_max_length", b"65535")])
        capture = out + "/slow-capture"
        # timer_us: every writer thread is interrupted by its own interval timer (handler with SA_RESTART): a blocked transfer that has
        # made progress comes back short, several times per record
        ops = [drv.op("S", fd, "lazypipe", delay_ms, capture, pipesz), drv.op("C", ini)] + ([drv.op("i", timer_us, 1)] if timer_us else []) + [drv.op("Z", nthreads, 1)]
        want = set()
        for t in range(nthreads):
            for k in range(ncalls):
                arg = ((b"%d-%d-" % (t, k)) * (size // 4 + 1))[:size]
                ops.append(drv.op_exec("e", b"/bin/w%dc%d" % (t, k), [b"w", arg], [], ret=-1, err=2, tno=t, callno=k))
                want.add(b"/bin/w%dc%d|w " % (t, k) + arg)
        ops.append(drv.op("y"))
        res = d.scenario(ops)
        case = {"slow_reader": okind, "threads": nthreads, "calls_each": ncalls, "record_bytes": size, "reader_starts_after_ms": delay_ms, "pipe_bytes": pipesz, "writer_interrupted_every_us": timer_us}
        ctx.count(("slow-reader", okind, nthreads, size, timer_us), ["slow-reader:" + okind] + (["slow-reader:transfers-interrupted-by-timer"] if timer_us else []), sample=case)
        if res.timedout or not res.of("y"):
            return {"what": "calls writing to a slowly read %s pipe did not complete (%d threads x %d calls of %d bytes)" % (okind, nthreads, ncalls, size),
                    "observed": {"result": res.describe()}, "case": case}
        got = open(capture, "rb").read().split(b"\n")
        lines = [l for l in got if l]
        bad = [l for l in lines if l not in want]
        if bad or len(lines) != len(want) or len(set(lines)) != len(lines):
            return {"what": "records of concurrent calls written to a slowly read %s pipe are not one whole line per call (%d threads x %d calls of %d bytes): %d lines, %d of them not a record"
                            % (okind, nthreads, ncalls, size, len(lines), len(bad)),
                    "observed": {"odd_line_head": bad[0][:120] if bad else None, "odd_line_tail": bad[0][-60:] if bad else None}, "case": case}
    finally:
        d.close()
    return None


def main():
    ctx = Ctx(PID, "exploration", RULE)
    bs = ctx.run.build_many(["ts-plain", "ts-tsan", "nts-plain"])
    builds = {b["name"]: b for b in bs}
    ctx.assumptions = ["interleavings are enumerated at lock granularity; unsynchronised accesses between two scheduling points are judged by "
                       "ThreadSanitizer's happens-before analysis under the enumerated schedules", "the scheduler's hand-over uses raw futex "
                       "syscalls that ThreadSanitizer does not model, so it adds no synchronisation of its own",
                       "a ThreadSanitizer report is attributed to snoopy only if one of the two racing accesses is made by its own code or by a libc function it calls directly (accesses deep inside libc on libc's own state are not)"]
    if ctx.replay:
        case, _ = load_replay(ctx.replay)
        ctx.count("replay-1", ["replay"], sample=case)
        ctx.nontrivial.add("replay-2")
        if "variant" in case:
            d = drv.Driver(ctx.run, builds[case["variant"]], extra_preload=[os.path.join(drv.BUILD, "libsched.so")], timeout_ms=30000,
                           utmp=utmp_file(ctx) if len(case["shape"]) > 4 and case["shape"][4] == "utmp" else None)
            try:
                run_sched(d, tuple(case["shape"]), [tuple(p) for p in case["sched"]], tsan=(case["variant"] == "ts-tsan"))
                print("replay: property holds for this case")
            except Failure as f:
                ctx.violation(case, f.observed, f.expected, f.what)
            d.close()
        ctx.finish()
    rng = random.Random(ctx.seed)
    jobs = []
    shapes = [(2, 1), (2, 2), (3, 1)] if ctx.quick else [(2, 1), (2, 2), (3, 1), (2, 3), (3, 2), (4, 1), (4, 3)]
    # other outputs and filter chains (every libc call the library makes is a scheduling point as well)
    shapes += [(2, 1, "stdout", "none"), (2, 1, "socket", "pass"), (2, 1, "file", "droplast"), (2, 1, "stderr", "droplast"), (2, 1, "file", "mixed"),
               (2, 1, "socket", "none", "big0"), (2, 1, "file", "none", "errfmt"), (2, 1, "file", "none", "errlog"), (2, 2, "file", "none", "nullargv"),
               (2, 1, "file", "none", "utmp"), (2, 1, "socket", "none", "nosink")]
    if not ctx.quick:
        shapes += [(3, 1, "stdout", "pass"), (2, 2, "file", "droplast"), (2, 2, "socket", "none"), (3, 1, "stderr", "none")]
    for shape in shapes:
        nt, nc = shape[0], shape[1]
        try:
            S = steps_of(ctx, builds, shape)
        except Failure as f:
            # already the undisturbed run violates the property
            ctx.count("fail:default", ["violating"], sample={"shape": list(shape), "preemptions": []})
            if len(ctx.violations) < 2:
                ctx.violation({"variant": "ts-plain", "shape": list(shape), "sched": []}, f.observed, f.expected, "[ts-plain] " + f.what)
            continue
        ctx.extra["steps_" + "x".join(str(x) for x in shape)] = S
        singles = [[(s, t)] for s in range(1, S + 1) for t in range(nt)]
        plain = [[]] + singles
        if len(shape) > 4 or shape == (2, 1):
            directed = descriptor_window_pairs(steps_of.trace)
            ctx.extra["directed_descriptor_window_pairs_" + "x".join(str(x) for x in shape)] = len(directed)
            plain += directed
        if shape == (2, 1):
            pairs = [[(a, 1), (b, 0)] for a in range(1, S + 1) for b in range(a + 1, S + 1)] + [[(a, 1), (b, 1)] for a in range(1, S // 2) for b in range(a + 1, S + 1, 3)]
            plain += pairs if not ctx.quick else rng.sample(pairs, min(len(pairs), 700))
            ctx.extra["pairs_2x1_exhaustive"] = not ctx.quick
        else:
            for _ in range(150 if ctx.quick else 3000):
                n = rng.choice([2, 2, 3])
                ss = sorted(rng.sample(range(1, S + 1), n))
                plain.append([(s, rng.randrange(nt)) for s in ss])
        for sc in plain:
            jobs.append(("ts-plain", shape, sc))
        # ThreadSanitizer build: the default run, every single preemption of the smallest shapes, samples otherwise
        if len(shape) > 2 and ctx.quick:
            # an evenly spaced sweep (every region of the call is preempted at least once), thread 0 and thread 1 alternating
            stride = max(1, len(singles) // 70) | 1
            ts = [[]] + singles[(ctx.seed % stride)::stride]
        else:
            ts = [[]] + (singles if shape in ((2, 1),) else rng.sample(singles, min(len(singles), 40 if ctx.quick else 400)))
        if not ctx.quick and shape == (2, 1):
            ts += rng.sample(pairs, 1500)
        if shape == (2, 1):
            triples = lock_window_triples(steps_of.trace)
            ctx.extra["directed_lock_window_triples_2x1"] = len(triples)
            ts += triples
        for sc in ts:
            jobs.append(("ts-tsan", shape, sc))
    rng.shuffle(jobs)
    nw = 16
    _W.update({"ctx": ctx, "builds": builds})
    seenkeys = set()
    for out, fails in run_workers(worker, nw, [(i, jobs[i::nw]) for i in range(nw)]):
        ctx.merge(out)
        for f in fails:
            if f["key"] not in seenkeys and len(ctx.violations) < 4:
                seenkeys.add(f["key"])
                ctx.violation(f["case"], f["observed"], f["expected"], f["what"])
    # (b) stress under ThreadSanitizer   (VERIF_C09_ONLY=sched, a debugging aid, leaves the free-running parts out)
    if os.environ.get("VERIF_C09_ONLY") == "sched":
        ctx.finish()
    v = stress(ctx, builds, 4 if ctx.quick else 32, 16 if ctx.quick else 64)
    if v and len(ctx.violations) < 5:
        ctx.violation({"stress": True}, v["observed"], None, v["what"])
    # (d) stdout / stderr into a slowly read pipe, records above PIPE_BUF
    for plan in ([("stderr", 6, 4, 12000), ("stderr", 6, 4, 6000), ("stdout", 6, 4, 9000), ("stderr", 2, 3, 40000, 300), ("stdout", 2, 3, 40000, 300)] if ctx.quick else
                 [("stderr", 6, 4, 12000), ("stderr", 6, 4, 6000), ("stdout", 6, 4, 9000), ("stderr", 16, 6, 5000), ("stderr", 4, 10, 30000), ("stdout", 16, 6, 4200),
                  ("stderr", 2, 3, 40000, 300), ("stdout", 2, 3, 40000, 300), ("stderr", 4, 4, 60000, 150), ("stdout", 1, 4, 65000, 500)]):
        okind, nt, nc, size = plan[:4]
        v = slow_reader(ctx, builds, okind, nt, nc, size, 400, 4096 if size != 5000 else 65536, plan[4] if len(plan) > 4 else 0)
        if v and len(ctx.violations) < 5:
            ctx.violation(v["case"], v["observed"], None, v["what"])
    # (c) non-thread-safe build, single-threaded sequence
    d = drv.Driver(ctx.run, builds["nts-plain"])
    out = d.out
    ini = gen.render_ini([(b"output", b"file:" + out.encode() + b"/log"), (b"message_format", b"%{tid}|%{filename}|%{cmdline}")])
    ops = [drv.op("x", out + "/log"), drv.op("W", "log", out + "/log"), drv.op("C", ini)]
    for k in range(6):
        ops.append(drv.op_exec("e" if k % 2 else "v", b"/bin/n%d" % k, [b"n%d" % k, b"a"], [], ret=-1, err=2))
    ops.append(drv.op("G"))
    res = d.scenario(ops)
    d.close()
    lines = (drv.parse_dump(res.of("G")[-1])["log"][2] or b"").split(b"\n")[:-1] if res.clean and res.of("G") else []
    ctx.count(("nts",), ["nts-sequence"], sample={"nts_records": [l[:60] for l in lines]})
    ok = len(lines) == 6 and all(l.split(b"|")[1:] == [b"/bin/n%d" % k, b"n%d a" % k] for k, l in enumerate(lines))
    if not ok and len(ctx.violations) < 5:
        ctx.violation({"nts": True}, {"records": lines, "result": res.describe()}, None, "non-thread-safe build: single-threaded call sequence gives wrong records")
    ctx.finish()


if __name__ == "__main__":
    main_wrapper(main)
