#!/usr/bin/env python3-vt
"""C08 -- the configuration file is parsed to the documented values with safe fallbacks."""
import os
import re
import sys

sys.path.insert(0, os.path.join(os.path.dirname(os.path.abspath(__file__)), "..", "lib"))
from hypothesis import strategies as st

import drv
import gen
import model
import pbt
from common import Ctx, Failure, main_wrapper

PID = "C08"
RULE = ("Hypothesis INI grammar: BOM, [snoopy]/other/malformed section lines, 'key = value' and 'key: value' with arbitrary "
        "blanks, ';'/'#' comment lines, inline ' ;' comments, single/double quotes, continuation lines, duplicate and "
        "unknown keys, lines up to 1022 bytes; per option every well-formed value (all facilities/levels x case x LOG_ "
        "prefix, every output name x argument, booleans by first letter, numbers 0..10^15 x {none,k,K,m,M}) plus "
        "garbage. Oracle: independent INI+option model vs the library's option-value API; `snoopyctl conf` output is "
        "cross-checked and fed back as a config file (round trip). non-trivial = at least one recognised option AND at "
        "least one of {quotes, duplicate, continuation, inline comment, BOM, other section, near-limit line, colon "
        "separator}; distinct by (feature set, option set)")

OPTS = ["error_logging", "filter_chain", "message_format", "output", "syslog_facility", "syslog_ident", "syslog_level",
        "datasource_message_max_length", "log_message_max_length"]
DEFAULT_FORMAT = b""
NUMS = [0, 1, 2, 254, 255, 256, 1023, 1024, 1025, 2047, 16383, 65535, 1048575, 1048576, 1048577, 2 ** 31 - 1, 2 ** 31,
        2 ** 31 + 1, 2 ** 32 - 1, 2 ** 32, 2 ** 32 + 1, 10 ** 12, 10 ** 15]


def casemix(draw, s):
    k = draw(st.sampled_from(["upper", "lower", "mixed"]))
    if k == "upper":
        return s.upper()
    if k == "lower":
        return s.lower()
    return "".join(c.upper() if draw(st.booleans()) else c.lower() for c in s)


@st.composite
def value_for(draw, opt):
    garbage = draw(st.sampled_from([False] * 5 + [True]))
    if garbage and opt in ("syslog_facility", "syslog_level") and draw(st.booleans()):
        # near-valid names: one character away from a documented one, or the next number in a documented series
        near = [b"LOCAL8", b"LOCAL9", b"LOCAL10", b"LOCAL07", b"LOCAL", b"LOCAL-1", b"local8", b"LOG_LOCAL9", b"LOCAL7x", b"KERNEL", b"USERS", b"AUT",
                b"DEBUG1", b"DEBU", b"EMERGENCY", b"WARN", b"ERROR", b"CRITICAL", b"INFO ", b"LOG_", b"LOG_LOG_INFO", b"NOTICE0", b"7", b"0", b"8"]
        return draw(st.sampled_from(near))
    if garbage:
        return draw(st.one_of(gen.text_bytes(0, 12), gen.bytes_nonul(0, 12).map(lambda b: b.replace(b"\n", b"_").replace(b"\r", b"_")),
                              st.sampled_from([b"", b":", b"::", b"A", b"LO", b"LOG", b"LOG_", b"XYZ_AUTH", b"-5", b"+5", b"5x",
                                               b"12kb", b"k", b"0k", b"00", b"1e3", b" 7", b"0x10", b"99999999999999999999"])))
    if opt == "error_logging":
        return draw(st.sampled_from([b"yes", b"no", b"Y", b"N", b"true", b"false", b"T", b"F", b"1", b"0", b"yep", b"nope",
                                     b"10", b"01", b"on", b"off", b"Tralala", b"fine"]))
    if opt in ("syslog_facility", "syslog_level"):
        table = model.FACILITIES if opt == "syslog_facility" else model.LEVELS
        name = draw(st.sampled_from(table))
        pre = draw(st.sampled_from(["", "", "LOG_", "log_", "Log_"]))
        return (pre + casemix(draw, name)).encode()
    if opt == "output":
        name = draw(st.sampled_from(model.OUTPUTS + ["syslog", "journald", "FILE", "files"]))
        arg = draw(st.sampled_from([None, None, b"", b"/x/y", b"/tmp/a:b:c", b"/var/log/s-%{datetime:%Y-%m-%d}.log", b":", b" sp"]))
        return name.encode() + (b"" if arg is None else b":" + arg)
    if opt in ("datasource_message_max_length", "log_message_max_length"):
        n = draw(st.one_of(st.sampled_from(NUMS), st.integers(0, 10 ** 15), st.integers(0, 3000)))
        suf = draw(st.sampled_from([b"", b"", b"k", b"K", b"m", b"M"]))
        lead = draw(st.sampled_from([b"", b"", b"0", b"000"]))
        return lead + str(n).encode() + suf
    # strings
    return draw(st.one_of(gen.text_bytes(0, 40, boundaries=(0, 1, 900, 960)),
                          st.sampled_from([b"%{cmdline}", b"a;b", b"a ;b", b"a#b", b" lead", b"x=y", b"k: v", b"'q'", b'"q"', b'"', b"'", b'""', b"'\"", b'" "',
                                           b"only_uid:0;noop", b"[x]", b"\\n", b"%"])))


@st.composite
def line(draw):
    k = draw(st.sampled_from(["kv"] * 10 + ["section", "section", "comment", "blank", "cont", "junk", "othersec"]))
    feats = set()
    if k == "section":
        return b"[snoopy]" + draw(st.sampled_from([b"", b"", b" ", b" ; c"])), {"section"}
    if k == "othersec":
        s = draw(st.sampled_from([b"[other]", b"[Snoopy]", b"[snoopy ]", b"[ snoopy]", b"[snoopy", b"[]", b"[sno;py]", b"[snoopy]x",
                                  b"[" + b"s" * 60 + b"]"]))
        return s, {"othersection"}
    if k == "comment":
        return draw(st.sampled_from([b";", b"#"])) + draw(gen.text_bytes(0, 30)), {"commentline"}
    if k == "blank":
        return draw(st.sampled_from([b"", b"  ", b"\t"])), set()
    if k == "cont":
        return draw(st.sampled_from([b" ", b"\t", b"    "])) + draw(st.one_of(gen.text_bytes(1, 20).map(lambda b: b.strip() or b"c"),
                                                                               st.sampled_from([b"yes", b"no", b"LOCAL3", b"17", b"devnull", b"; c", b"# c", b"[snoopy]", b'"q"', b"x ; y"]))), {"continuation"}
    if k == "junk":
        return draw(gen.text_bytes(1, 20)).replace(b"=", b"").replace(b":", b"").strip() or b"junk", {"junk"}
    opt = draw(st.sampled_from(OPTS + OPTS + ["unknown_key", "Message_Format", "output "]))
    base = opt if opt in OPTS else "message_format"
    val = draw(value_for(base))
    sep = draw(st.sampled_from([b"=", b"=", b" = ", b" = ", b":", b" : ", b"\t=\t", b"= "]))
    if b":" in sep:
        feats.add("colon-sep")
    q = draw(st.sampled_from([None, None, None, b'"', b"'", b"mismatch", b"half"]))
    if q in (b'"', b"'"):
        val = q + val + q
        feats.add("quotes")
    elif q == b"mismatch":
        val = b'"' + val + b"'"
        feats.add("quotes")
    elif q == b"half":
        val = b'"' + val
        feats.add("quotes")
    ic = draw(st.sampled_from([None, None, None, b" ; comment", b"\t;c", b" ;", b";nocomment", b" # hash"]))
    if ic:
        val = val + ic
        feats.add("inline-comment")
    pad = draw(st.sampled_from([b"", b"", b"  ", b"\t"]))
    key = opt.encode()
    l = key + sep + pad + val + draw(st.sampled_from([b"", b"", b"  ", b"\r"]))
    if len(l) > 900:
        feats.add("near-limit-line")
    return l[:1022], feats | {"opt:" + opt}


def strategy():
    @st.composite
    def case(draw):
        n = draw(st.integers(0, 14))
        lines = [draw(line()) for _ in range(n)]
        if draw(st.sampled_from([True, True, True, False])):
            lines.insert(draw(st.integers(0, min(2, len(lines)))), (b"[snoopy]", {"section"}))
        feats = set()
        for _, f in lines:
            feats |= f
        body = [l for l, _ in lines]
        bom = draw(st.sampled_from([False] * 5 + [True]))
        data = (b"\xef\xbb\xbf" if bom else b"") + b"\n".join(body)
        if draw(st.sampled_from([True, True, False])):
            data += b"\n"
        if bom:
            feats.add("BOM")
        alt = draw(st.sampled_from([False, False, True]))
        loc = draw(st.sampled_from([False, False, True]))
        return {"data": data, "feats": sorted(feats) + (["build:alternative-compile-time-defaults"] if alt else []) + (["locale:non-ascii-case-mapping"] if loc else []),
                "altbuild": alt, "locale": loc, "shortread": (not alt) and len(data) > 64 and draw(st.sampled_from([False, True]))}
    return case()


def api_values(res):
    Y = res.of("Y")
    if not Y:
        return None
    f = Y[-1].f
    return {f[i].decode(): f[i + 1] for i in range(0, len(f), 2)}


def parse_conf_output(out):
    """`snoopyctl conf` prints '; ...' then '[snoopy]' then 'key = value' lines."""
    vals = {}
    for ln in out.split(b"\n"):
        m = re.match(rb"^([a-z_]+) = (.*)$", ln, re.S)
        if m:
            vals[m.group(1).decode()] = m.group(2)
    return vals


LOCALE = None
ALT = "ts-asan-altdefaults"
SHORTREAD = "ts-asan-shortread"
ALT_DEFAULTS = {"message_format": b"ALT %{cmdline} u=%{uid} [%{tty}] %{datetime:%H:%M}", "output": b"file:/nonexistent/alt-%{datetime:%Y-%m}-%{snoopy_literal:a:b}.log",
                "syslog_facility": b"LOCAL2", "syslog_level": b"DEBUG", "filter_chain": b"exclude_uid:77;noop", "error_logging": b"yes"}
ALT_CONFIGURE = ["--with-message-format=" + ALT_DEFAULTS["message_format"].decode(), "--with-default-output=" + ALT_DEFAULTS["output"].decode(),
                 "--with-syslog-facility=LOCAL2", "--with-syslog-level=DEBUG", "--with-filter-chain=" + ALT_DEFAULTS["filter_chain"].decode(), "--enable-error-logging"]
DEFAULTS_OF = {}


def evaluate(env, c, roundtrip=None):
    # a build whose compile-time defaults are all different from the stock ones: whatever a file does not set (or sets to garbage)
    # falls back to THOSE values
    variant = ALT if c.get("altbuild") and ALT in env.builds else "ts-asan"
    if c.get("shortread") and variant == "ts-asan" and SHORTREAD in env.builds:
        # the same library where every read() from a file returns at most 64 bytes (legal; stdio keeps reading, so must anybody else)
        variant = SHORTREAD
    d = env.driver(variant)
    data = c["data"]
    if any(len(l) > 1022 for l in data.split(b"\n")):
        return
    do_rt = roundtrip if roundtrip is not None else (sum(data) % 4 == 0)
    ctl_env = ["--", "SNOOPY_TEST_LIBSNOOPY_SO_PATH=" + d.build["lib"], "ASAN_OPTIONS=detect_leaks=0:abort_on_error=1",
               "PATH=/usr/bin:/bin"]
    # the host program may run under a locale whose case mapping is not ASCII's (toupper('i') != 'I'): keywords are ASCII all the same
    ops = ([drv.op("q", LOCALE[1])] if c.get("locale") and LOCALE else []) + [drv.op("C", data), drv.op("Y")]
    if do_rt:
        ops.append(drv.op("B", d.build["ctl"], "snoopyctl", "conf", *ctl_env))
    res = d.scenario(ops)
    reports = d.sanitizer_reports()
    if not res.clean:
        raise Failure("crash or hang while parsing the configuration", {"result": res.describe(), "sanitizer": [r[:2500] for r in reports[:1]]}, key="crash")
    got = api_values(res)
    if got is None:
        raise Failure("option-value API returned nothing", {"result": res.describe()}, key="api")
    dflt = DEFAULTS_OF.get(variant)
    want = model.config_model(data, dflt["message_format"] if dflt else DEFAULT_FORMAT, defaults=dflt)
    bad = {}
    for k in OPTS:
        if got.get(k) not in want[k]:
            bad[k] = {"got": got.get(k), "accepted": sorted(want[k])}
    if bad:
        raise Failure("option value differs from the documented meaning: " + ",".join(sorted(bad)), bad, None,
                      key="value:" + ",".join(sorted(bad)))
    for k in ("datasource_message_max_length", "log_message_max_length"):
        v = int(got[k])
        if not (255 <= v <= 1048575):
            raise Failure("%s outside [255,1048575]" % k, {"value": v}, key="range")
    if do_rt:
        B = res.of("B")
        st_, out, err = int(B[0].f[0]), B[0].f[1], B[0].f[2]
        if st_ != 0:
            raise Failure("snoopyctl conf failed", {"status": st_, "stderr": err[-600:]}, key="ctl")
        shown = parse_conf_output(out)
        # what conf shows must denote the API values ...
        text = out       # the output is meant to be usable as a config file as it stands
        if any(len(l) > 1022 for l in text.split(b"\n")):
            return
        res2 = d.scenario([drv.op("C", text), drv.op("Y")])
        d.sanitizer_reports()
        got2 = api_values(res2) if res2.clean else None
        if got2 != got:
            diff = {k: {"first": got.get(k), "after_round_trip": (got2 or {}).get(k), "conf_printed": shown.get(k)}
                    for k in OPTS if (got2 or {}).get(k) != got.get(k)}
            raise Failure("value printed by `snoopyctl conf`, written back as a config file, gives a different setting: "
                          + ",".join(sorted(diff)), diff, None, key="roundtrip")


def classify(c):
    feats = set(c["feats"])
    opts = sorted(f for f in feats if f.startswith("opt:") and f[4:] in OPTS)
    special = feats & {"quotes", "continuation", "inline-comment", "BOM", "othersection", "near-limit-line", "colon-sep"}
    names = [l.split(b"=")[0].split(b":")[0].strip() for l in c["data"].split(b"\n")]
    dup = len([n for n in names if n.decode("latin-1") in OPTS]) > len(set(n for n in names if n.decode("latin-1") in OPTS))
    if dup:
        special = special | {"duplicate"}
    nontriv = bool(opts) and bool(special)
    key = (tuple(sorted(special)), tuple(opts)) if nontriv else None
    return key, sorted(special) + (["has-option"] if opts else ["no-option"]) + (["build:alternative-compile-time-defaults"] if c.get("altbuild") else []) + (["locale:non-ascii-case-mapping"] if c.get("locale") else []) + (["reads-return-at-most-64-bytes"] if c.get("shortread") else [])


def sample(c):
    return {"data": c["data"], "feats": c["feats"], "altbuild": c.get("altbuild", False), "locale": c.get("locale", False), "shortread": c.get("shortread", False)}


FIXED = [
    {"data": b"[snoopy]\nlog_message_max_length = 2048m\ndatasource_message_max_length = 2147483648\n", "feats": ["opt:log_message_max_length"]},
    {"data": b"[snoopy]\nsyslog_facility = A\nsyslog_level = XYZ_DEBUG\n", "feats": ["opt:syslog_facility"]},
    {"data": b"[snoopy]\nsyslog_facility = mail\nsyslog_level = LOG_warning\nerror_logging = TRUE\n", "feats": ["opt:syslog_facility", "locale:non-ascii-case-mapping"], "locale": True},
    {"data": b"[snoopy]\nsyslog_facility = Daemon\nsyslog_level = info\noutput = stdout\nfilter_chain =\n", "feats": ["opt:syslog_level", "build:alternative-compile-time-defaults"],
     "altbuild": True, "locale": True},
    {"data": b"[snoopy]\noutput = :\n", "feats": ["opt:output"]},
    {"data": b"[snoopy]\nmessage_format = \"  padded  \"\n", "feats": ["opt:message_format", "quotes"]},
    {"data": b"\xef\xbb\xbf[snoopy]\nsyslog_facility: LOG_local3 ; c\n   LOCAL4\n", "feats": ["opt:syslog_facility", "BOM", "continuation", "colon-sep"]},
]


def main():
    global DEFAULT_FORMAT
    ctx = Ctx(PID, "exploration", RULE)
    b, balt = ctx.run.build_many(["ts-asan", {"variant": "ts-asan", "name": ALT, "extra_configure": ALT_CONFIGURE}])
    cfgh = open(os.path.join(b["src"], "config.h")).read()
    DEFAULT_FORMAT = re.search(r'#define SNOOPY_CONF_MESSAGE_FORMAT "(.*)"', cfgh).group(1).encode()
    # (expectations come from the configure arguments themselves, not from what configure made of them)
    DEFAULTS_OF[ALT] = dict(model.DEFAULTS, **ALT_DEFAULTS)
    ctx.extra["alternative_build_defaults"] = {k: v.decode("latin-1") for k, v in DEFAULTS_OF[ALT].items()}
    ctx.assumptions = ["physical lines longer than 1022 bytes and NUL bytes are outside the modelled grammar (C02 covers them)",
                       "where a duplicate's last value is garbage, the union {default} is required for syslog names; for lengths "
                       "garbage may yield the default or the value of its leading digits",
                       "round trip through the real `snoopyctl conf` is run for about a quarter of the cases"]
    nw, per = (4, 1000) if ctx.quick else (16, 7500)
    global LOCALE
    import trlocale
    LOCALE = trlocale.build(os.path.join(ctx.run.dir, "locale"))
    if LOCALE is None:
        ctx.inconclusive.append("localedef not available: the non-ASCII-case-mapping locale could not be built, those cases run in the C locale")
    bshort = dict(b, name=SHORTREAD, driver_kwargs={"extra_preload": [os.path.join(drv.BUILD, "libshortwrite.so")], "extra_env": {"SHORTREAD_CAP": "64"}})
    pbt.run(ctx, {"ts-asan": b, ALT: balt, SHORTREAD: bshort}, strategy, evaluate, classify, nw, per, sample=sample, fixed_cases=FIXED,
            driver_kwargs={"extra_env": {"LOCPATH": LOCALE[0]}} if LOCALE else None)
    ctx.finish()


if __name__ == "__main__":
    main_wrapper(main)
