#!/usr/bin/env python3-vt
"""C14 -- UID filters decide by exact membership of the real uid."""
import os
import sys

sys.path.insert(0, os.path.join(os.path.dirname(os.path.abspath(__file__)), "..", "lib"))
from hypothesis import strategies as st

import drv
import gen
import pbt
from common import Ctx, Failure, main_wrapper

PID = "C14"
RULE = ("Hypothesis-generated (sequence of 1..3 real uids assumed one after another by ONE process via setresuid, with "
        "unrelated effective uids; list of 1..200 decimal uids in any order with duplicates and near misses: uid+-1, decimal "
        "prefixes/suffixes/extensions of the uid text, leading zeros, values around 2^16/2^31/2^32); for every stage the "
        "three filters only_uid:L, exclude_uid:L and only_root are each consulted by a real wrapped exec. Oracle: set "
        "membership of getresuid()'s real uid; only_uid and exclude_uid must disagree. non-trivial = list contains a near "
        "miss of the real uid, or real uid >= 2^16, or the effective uid is a listed value different from the real uid, or the "
        "real uid changes between calls; distinct by (ruid sequence, list class). Lists of 200 items (longer than a config line) are "
        "delivered as compiled-in default chain (./configure --with-filter-chain) in extra builds")

UIDS = [0, 1, 999, 1000, 65534, 65535, 65536, 2 ** 31 - 1, 2 ** 31, 2 ** 32 - 2]


def near_misses(u):
    t = str(u)
    out = {u + 1, max(0, u - 1), u + 10, u * 10, int(t + "0"), int("1" + t)}
    if len(t) > 1:
        out |= {int(t[:-1]), int(t[1:]) if t[1:] else 0}
    out |= {u ^ 0x10000, u % 65536, (u + 2 ** 31) % 2 ** 32, u & 0x7fffffff}
    out.discard(u)
    # list items stay valid uids (0 .. 2^32-2); anything larger is a malformed list (C02's business)
    return sorted(x for x in out if 0 <= x <= 2 ** 32 - 2)


def strategy():
    @st.composite
    def case(draw):
        ruids = draw(st.lists(st.sampled_from(UIDS), min_size=1, max_size=3))
        euids = [draw(st.sampled_from([0, 0, 5, 1000, 65534])) for _ in ruids]
        n = draw(st.sampled_from([1, 1, 2, 3, 5, 20, 200]))
        pool = list(UIDS) + [7, 42, 12345, 99999]
        for u in ruids:
            pool += near_misses(u)
        items = draw(st.lists(st.sampled_from(pool), min_size=n, max_size=n))
        include = draw(st.sampled_from(["yes", "no", "random"]))
        if include == "yes":
            items.insert(draw(st.integers(0, len(items))), draw(st.sampled_from(ruids)))
        elif include == "no":
            items = [i for i in items if i not in ruids] or [4242]
        texts = []
        for i in items:
            t = str(i)
            if draw(st.sampled_from([False] * 9 + [True])):
                t = "0" * draw(st.integers(1, 3)) + t
            texts.append(t)
        # keep the config line within the parser's limit
        while len(",".join(texts)) > 960:
            texts.pop()
        return {"ruids": ruids, "euids": euids, "list": texts, "pre_errno": draw(st.sampled_from([0, 0, 34, 22, 4])),
                "ini_mode": draw(st.sampled_from(["644", "644", "600"]))}
    return case()


def evaluate(env, c):
    d = env.driver(c.get("variant", "ts-asan"))
    out = d.out
    L = ",".join(c["list"]).encode()
    members = {int(t) for t in c["list"]}
    ops = [drv.op("W", "log", out + "/log")] + gen.std_sinks(out)[:3]
    plan = []
    for ruid, euid in zip(c["ruids"], c["euids"]):
        ops.append(drv.op("U", -1, -1, -1, -1, 0, -1))          # regain euid 0 (saved uid stays 0)
        ops.append(drv.op("U", -1, -1, -1, ruid, euid, 0))
        ops.append(drv.op("Q"))
        for flt in (b"only_uid:" + L, b"exclude_uid:" + L, b"only_root"):
            ini = gen.render_ini([(b"output", b"file:" + out.encode() + b"/log"), (b"message_format", b"R"), (b"filter_chain", flt)])
            # a root-only (0600) config file is still readable when the EFFECTIVE uid is root, whatever the real uid
            mode = c.get("ini_mode", "644") if euid == 0 else "644"
            ops += [drv.op("U", -1, -1, -1, -1, 0, -1), drv.op("x", out + "/log"), drv.op("C", ini, mode),
                    drv.op("U", -1, -1, -1, ruid, euid, 0), drv.op("e", c.get("pre_errno", 0)),
                    drv.op_exec("e", b"/bin/x", [b"x"], [], ret=-1, err=2), drv.op("G")]
            plan.append((ruid, euid, flt.split(b":")[0].decode()))
    res = d.scenario(ops)
    reports = d.sanitizer_reports()
    if not res.clean or res.errors():
        raise Failure("process crashed / harness step failed", {"result": res.describe(), "errors": res.errors(),
                                                                 "sanitizer": [r[:2000] for r in reports[:1]]}, key="crash")
    Gs, Qs = res.of("G"), res.of("Q")
    for i, (ruid, euid) in enumerate(zip(c["ruids"], c["euids"])):
        got_r = int(Qs[i].f[0].split()[0])
        if got_r != ruid:
            raise Failure("harness could not assume real uid %d (got %d)" % (ruid, got_r), None, key="harness")
    verdicts = {}
    for (ruid, euid, flt), g in zip(plan, Gs):
        content = drv.parse_dump(g)["log"][2]
        logged = content == b"R\n"
        if content not in (None, b"R\n"):
            raise Failure("unexpected log content", {"content": content[:100]}, key="content")
        want = {"only_uid": ruid in members, "exclude_uid": ruid not in members, "only_root": ruid == 0}[flt]
        verdicts[(ruid, flt)] = logged
        if logged != want:
            raise Failure("%s: real uid %d (euid %d), list %s -> %s, expected %s" % (
                flt, ruid, euid, ",".join(c["list"])[:200], "logged" if logged else "dropped", "logged" if want else "dropped"),
                {"ruids": c["ruids"], "logged": logged}, {"logged": want}, key="decision:" + flt)
    for ruid in c["ruids"]:
        if verdicts[(ruid, "only_uid")] == verdicts[(ruid, "exclude_uid")]:
            raise Failure("only_uid:L and exclude_uid:L agree for uid %d" % ruid, None, key="complement")


def classify(c):
    members = {int(t) for t in c["list"]}
    nm = any(m in members for u in c["ruids"] for m in near_misses(u))
    big = any(u >= 65536 for u in c["ruids"])
    eff = any(e in members and e != r for r, e in zip(c["ruids"], c["euids"]))
    change = len(set(c["ruids"])) > 1
    lead0 = any(t.startswith("0") and len(t) > 1 for t in c["list"])
    nontriv = nm or big or eff or change
    cls = ["len:%s" % ("1" if len(c["list"]) == 1 else ("<=5" if len(c["list"]) <= 5 else ">5"))]
    for flag, name in ((nm, "near-miss"), (big, "uid>=2^16"), (eff, "euid-listed"), (change, "uid-changes-in-process"), (lead0, "leading-zeros")):
        if flag:
            cls.append(name)
    inc = any(u in members for u in c["ruids"])
    cls.append("member" if inc else "non-member")
    key = (tuple(c["ruids"]), nm, eff, inc, len(c["list"]) > 5) if nontriv else None
    return key, cls


# ------------------------------------------------------------------ lists longer than a config line: compiled-in default chain
def long_list(rng, n, member, pos):
    items = []
    while len(items) < n:
        v = rng.choice([rng.randint(1000000000, 4294967294), rng.randint(10000, 99999), rng.randint(0, 2 ** 32 - 2)])
        if v != member and v not in (0, 1000, 65536):
            items.append(v)
    if pos == "last":
        items[-1] = member
    elif pos == "middle":
        items[n // 2] = member
    elif pos == "first":
        items[0] = member
    return items


def long_list_phase(ctx, b_main):
    """only_uid / exclude_uid with 200-item lists (up to ~2.2 KB) delivered through ./configure --with-filter-chain."""
    import random
    rng = random.Random(ctx.seed)
    member = rng.choice([1000, 65536, 2 ** 31, 2 ** 32 - 2])
    specs = []
    plans = [("only_uid", "last"), ("exclude_uid", "middle")] if ctx.quick else [("only_uid", "last"), ("exclude_uid", "middle"), ("only_uid", "middle"),
                                                                                 ("exclude_uid", "last"), ("only_uid", "first")]
    for i, (flt, pos) in enumerate(plans):
        items = long_list(rng, 200, member, pos)
        chain = "%s:%s" % (flt, ",".join(map(str, items)))
        specs.append({"variant": "ts-asan", "name": "chain%d" % i, "extra_configure": ["--with-filter-chain=" + chain,
                                                                                    "--with-message-format=R", "--with-default-output=file:" + ctx.run.out + "/longlist.log"]})
    builds = ctx.run.build_many(specs)
    for (flt, pos), b in zip(plans, builds):
        d = drv.Driver(ctx.run, b)
        try:
            for ruid, is_member in ((member, True), (member + 1 if member < 2 ** 32 - 3 else member - 1, False), (0, False)):
                log = ctx.run.out + "/longlist.log"
                ops = [drv.op("D"), drv.op("x", log), drv.op("W", "log", log), drv.op("U", -1, -1, -1, ruid, 0, 0), drv.op("Q"),
                       drv.op_exec("e", b"/bin/x", [b"x"], [], ret=-1, err=2), drv.op("U", -1, -1, -1, -1, 0, -1), drv.op("G")]
                res = d.scenario(ops)
                d.sanitizer_reports()
                ctx.count(("longlist", flt, pos, ruid), ["compiled-in-200-item-list", flt], sample={"filter": flt, "list_items": 200, "member_position": pos, "ruid": ruid})
                if not res.clean or not res.of("G"):
                    ctx.violation({"longlist": [flt, pos, ruid]}, {"result": res.describe()}, None, "crash with a 200-item uid list compiled in as default chain")
                    return
                logged = drv.parse_dump(res.of("G")[-1])["log"][2] == b"R\n"
                want = is_member if flt == "only_uid" else not is_member
                if logged != want:
                    ctx.violation({"longlist": [flt, pos, ruid]}, {"logged": logged}, {"logged": want},
                                  "%s with a 200-item list (compiled-in default chain, member at %s position): real uid %d -> %s" % (
                                      flt, pos, ruid, "logged" if logged else "dropped"))
                    return
        finally:
            d.close()


def main():
    ctx = Ctx(PID, "exploration", RULE)
    b = ctx.run.build("ts-asan")
    ctx.assumptions = ["the harness runs as root and keeps saved uid 0 so that one process can assume several real uids in a row",
                       "only well-formed decimal lists are generated (malformed lists belong to C02)"]
    nw, per = (4, 400) if ctx.quick else (16, 5000)
    pbt.run(ctx, {"ts-asan": b, "nts-asan": ctx.run.build("nts-asan")}, strategy, evaluate, classify, nw, per, variants=["ts-asan", "ts-asan", "nts-asan"])
    if not ctx.replay:
        long_list_phase(ctx, b)
    ctx.finish()


if __name__ == "__main__":
    main_wrapper(main)
