#!/usr/bin/env python3-vt
"""C14 -- UID filters decide by exact membership of the real uid."""
import os
import sys

sys.path.insert(0, os.path.join(os.path.dirname(os.path.abspath(__file__)), "..", "lib"))
from hypothesis import strategies as st

import drv
import gen
import pbt
from common import Ctx, Failure, main_wrapper

PID = "C14"
RULE = ("Hypothesis-generated (sequence of 1..3 real uids assumed one after another by ONE process via setresuid, with "
        "unrelated effective uids; list of 1..200 decimal uids in any order with duplicates and near misses: uid+-1, decimal "
        "prefixes/suffixes/extensions of the uid text, leading zeros, values around 2^16/2^31/2^32); for every stage the "
        "three filters only_uid:L, exclude_uid:L and only_root are each consulted by a real wrapped exec. Oracle: set "
        "membership of getresuid()'s real uid; only_uid and exclude_uid must disagree. non-trivial = list contains a near "
        "miss of the real uid, or real uid >= 2^16, or the effective uid is a listed value different from the real uid, or the "
        "real uid changes between calls; distinct by (ruid sequence, list class)")

UIDS = [0, 1, 999, 1000, 65534, 65535, 65536, 2 ** 31 - 1, 2 ** 31, 2 ** 32 - 2]


def near_misses(u):
    t = str(u)
    out = {u + 1, max(0, u - 1), u + 10, u * 10, int(t + "0"), int("1" + t)}
    if len(t) > 1:
        out |= {int(t[:-1]), int(t[1:]) if t[1:] else 0}
    out |= {u ^ 0x10000, u % 65536, (u + 2 ** 31) % 2 ** 32, u & 0x7fffffff}
    out.discard(u)
    # list items stay valid uids (0 .. 2^32-2); anything larger is a malformed list (C02's business)
    return sorted(x for x in out if 0 <= x <= 2 ** 32 - 2)


def strategy():
    @st.composite
    def case(draw):
        ruids = draw(st.lists(st.sampled_from(UIDS), min_size=1, max_size=3))
        euids = [draw(st.sampled_from([0, 0, 5, 1000, 65534])) for _ in ruids]
        n = draw(st.sampled_from([1, 1, 2, 3, 5, 20, 200]))
        pool = list(UIDS) + [7, 42, 12345, 99999]
        for u in ruids:
            pool += near_misses(u)
        items = draw(st.lists(st.sampled_from(pool), min_size=n, max_size=n))
        include = draw(st.sampled_from(["yes", "no", "random"]))
        if include == "yes":
            items.insert(draw(st.integers(0, len(items))), draw(st.sampled_from(ruids)))
        elif include == "no":
            items = [i for i in items if i not in ruids] or [4242]
        texts = []
        for i in items:
            t = str(i)
            if draw(st.sampled_from([False] * 9 + [True])):
                t = "0" * draw(st.integers(1, 3)) + t
            texts.append(t)
        # keep the config line within the parser's limit
        while len(",".join(texts)) > 960:
            texts.pop()
        return {"ruids": ruids, "euids": euids, "list": texts}
    return case()


def evaluate(env, c):
    d = env.driver("ts-asan")
    out = d.out
    L = ",".join(c["list"]).encode()
    members = {int(t) for t in c["list"]}
    ops = [drv.op("W", "log", out + "/log")] + gen.std_sinks(out)[:3]
    plan = []
    for ruid, euid in zip(c["ruids"], c["euids"]):
        ops.append(drv.op("U", -1, -1, -1, -1, 0, -1))          # regain euid 0 (saved uid stays 0)
        ops.append(drv.op("U", -1, -1, -1, ruid, euid, 0))
        ops.append(drv.op("Q"))
        for flt in (b"only_uid:" + L, b"exclude_uid:" + L, b"only_root"):
            ini = gen.render_ini([(b"output", b"file:" + out.encode() + b"/log"), (b"message_format", b"R"), (b"filter_chain", flt)])
            ops += [drv.op("U", -1, -1, -1, -1, 0, -1), drv.op("x", out + "/log"), drv.op("C", ini),
                    drv.op("U", -1, -1, -1, ruid, euid, 0),
                    drv.op_exec("e", b"/bin/x", [b"x"], [], ret=-1, err=2), drv.op("G")]
            plan.append((ruid, euid, flt.split(b":")[0].decode()))
    res = d.scenario(ops)
    reports = d.sanitizer_reports()
    if not res.clean or res.errors():
        raise Failure("process crashed / harness step failed", {"result": res.describe(), "errors": res.errors(),
                                                                 "sanitizer": [r[:2000] for r in reports[:1]]}, key="crash")
    Gs, Qs = res.of("G"), res.of("Q")
    for i, (ruid, euid) in enumerate(zip(c["ruids"], c["euids"])):
        got_r = int(Qs[i].f[0].split()[0])
        if got_r != ruid:
            raise Failure("harness could not assume real uid %d (got %d)" % (ruid, got_r), None, key="harness")
    verdicts = {}
    for (ruid, euid, flt), g in zip(plan, Gs):
        content = drv.parse_dump(g)["log"][2]
        logged = content == b"R\n"
        if content not in (None, b"R\n"):
            raise Failure("unexpected log content", {"content": content[:100]}, key="content")
        want = {"only_uid": ruid in members, "exclude_uid": ruid not in members, "only_root": ruid == 0}[flt]
        verdicts[(ruid, flt)] = logged
        if logged != want:
            raise Failure("%s: real uid %d (euid %d), list %s -> %s, expected %s" % (
                flt, ruid, euid, ",".join(c["list"])[:200], "logged" if logged else "dropped", "logged" if want else "dropped"),
                {"ruids": c["ruids"], "logged": logged}, {"logged": want}, key="decision:" + flt)
    for ruid in c["ruids"]:
        if verdicts[(ruid, "only_uid")] == verdicts[(ruid, "exclude_uid")]:
            raise Failure("only_uid:L and exclude_uid:L agree for uid %d" % ruid, None, key="complement")


def classify(c):
    members = {int(t) for t in c["list"]}
    nm = any(m in members for u in c["ruids"] for m in near_misses(u))
    big = any(u >= 65536 for u in c["ruids"])
    eff = any(e in members and e != r for r, e in zip(c["ruids"], c["euids"]))
    change = len(set(c["ruids"])) > 1
    lead0 = any(t.startswith("0") and len(t) > 1 for t in c["list"])
    nontriv = nm or big or eff or change
    cls = ["len:%s" % ("1" if len(c["list"]) == 1 else ("<=5" if len(c["list"]) <= 5 else ">5"))]
    for flag, name in ((nm, "near-miss"), (big, "uid>=2^16"), (eff, "euid-listed"), (change, "uid-changes-in-process"), (lead0, "leading-zeros")):
        if flag:
            cls.append(name)
    inc = any(u in members for u in c["ruids"])
    cls.append("member" if inc else "non-member")
    key = (tuple(c["ruids"]), nm, eff, inc, len(c["list"]) > 5) if nontriv else None
    return key, cls


def main():
    ctx = Ctx(PID, "exploration", RULE)
    b = ctx.run.build("ts-asan")
    ctx.assumptions = ["the harness runs as root and keeps saved uid 0 so that one process can assume several real uids in a row",
                       "only well-formed decimal lists are generated (malformed lists belong to C02)"]
    nw, per = (4, 400) if ctx.quick else (16, 5000)
    pbt.run(ctx, {"ts-asan": b}, strategy, evaluate, classify, nw, per)
    ctx.finish()


if __name__ == "__main__":
    main_wrapper(main)
