#!/usr/bin/env python3-vt
"""C10 -- exec in a forked child of a multithreaded process never deadlocks."""
import os
import random
import sys

sys.path.insert(0, os.path.join(os.path.dirname(os.path.abspath(__file__)), "..", "lib"))

import drv
import gen
from common import Ctx, Counters, Failure, confirm, main_wrapper, run_workers, load_replay

PID = "C10"
RULE = ("for each configuration (outputs file / devlog / stdout / devnull / socket; formats with and without %{snoopy_threads}; "
        "thorough: seeded random configurations as well) a second thread performs a wrapped exec and is parked by the mutex "
        "interposer right after its k-th lock-acquisition / unlock event, for EVERY k of the call (complete enumeration, k = 1..N "
        "from a dry run) and for k beyond N (fork with no thread inside the library); the main thread then fork()s; the child "
        "performs an exec (scripted failing and real), directly or after forking once more (depth 2). Oracle: the child's call "
        "reaches the real exec and its record appears; a lock attempt in the single-threaded child on a mutex that trylock reports "
        "busy is a deterministic deadlock verdict (10 s backstop = inconclusive, never a verdict by itself); afterwards the "
        "parked thread and the parent complete their own calls with correct records. non-trivial = the fork was taken while the "
        "second thread was parked inside the call; distinct by (k, output, depth, real)")

ALL_DS = "".join("%{" + n + (":1" if n == "cgroup" else (":HOME" if n == "env" else "")) + "}|" for n in gen.ALL_SOURCES) + "%{cmdline}"
CONFIGS = [("file", "%{cmdline}"), ("file", ALL_DS), ("file", "%{snoopy_threads} %{cmdline}"), ("devlog", "%{cmdline}"), ("stdout", "%{snoopy_threads}:%{cmdline}"),
           ("devnull", "%{cmdline}"), ("socket", "%{tid}:%{cmdline}")]


def ini_for(out, okind, fmt):
    o = out.encode()
    val = {"file": b"file:" + o + b"/log", "devlog": b"devlog", "stdout": b"stdout", "devnull": b"devnull", "socket": b"socket:" + o + b"/sock"}[okind]
    return gen.render_ini([(b"output", val), (b"message_format", fmt.encode())])


def run_case(d, c):
    """c: dict(okind, fmt, k, depth, real).  Returns (events_total, parked) ; raises Failure."""
    out = d.out
    child_path = drv.ARGDUMP.encode() if c["real"] else b"/bin/child"
    ops = [drv.op("x", out + "/log"), drv.op("S", 0, "pty")] + gen.std_sinks(out)[:5] + [drv.op("C", ini_for(out, c["okind"], c["fmt"])),
                                                                   drv.op_exec("e", b"/bin/warm", [b"warmup"], [], ret=-1, err=2),
                                                                   drv.op("J", c["k"], c["depth"]),
                                                                   drv.op_exec("e", b"/bin/B", [b"thread-B-call"], [], ret=-1, err=2, tno=0, callno=0),
                                                                   drv.op_exec("v" if c["depth"] == 2 else "e", child_path, [b"child-call"], [b"C=1"], ret=-1, err=2, real=c["real"]),
                                                                   drv.op_exec("e", b"/bin/P", [b"parent-after"], [], ret=-1, err=2),
                                                                   drv.op("L"), drv.op("G")]
    res = d.scenario(ops)
    d.sanitizer_reports()
    what = "output %s, format %r, fork with second thread parked after event k=%d, depth %d, %s exec in the child" % (
        c["okind"], c["fmt"], c["k"], c["depth"], "real" if c["real"] else "failing")
    J = res.of("j")
    if res.timedout or not J:
        raise Failure("scenario did not complete (%s)" % what, {"result": res.describe()}, key="hang")
    k, parked, events, status = int(J[0].f[0]), int(J[0].f[1]), int(J[0].f[2]), J[0].f[3].decode()
    dl = res.of("d")
    if status == "deadlock" or dl:
        raise Failure("child of fork() deadlocks in its exec call: %s (%s)" % (dl[0].f[0].decode() if dl else "lock busy forever", what),
                      {"parked_in_call": bool(parked), "events_in_call": events}, key="deadlock")
    if status == "timeout":
        raise Failure("child's exec call did not complete within 10 s (%s)" % what, None, key="timeout")
    if status != "ok" or not res.clean:
        raise Failure("child or parent ended abnormally: %s (%s)" % (status, what), {"result": res.describe(), "errors": res.errors()}, key="abnormal")
    # the child's call reached the real exec
    if c["real"]:
        A = res.of("A")
        if len(A) != 1 or A[0].f[2:3] != [b"child-call"]:
            raise Failure("child's real exec did not start the target program (%s)" % what, None, key="child-exec")
    else:
        if not res.of("c"):
            raise Failure("child's call did not return (%s)" % what, None, key="child-exec")
    Rs = res.of("R")
    want_calls = 4
    if len(Rs) != want_calls:
        raise Failure("%d of %d calls reached the real exec (%s)" % (len(Rs), want_calls, what), None, key="count")
    # records: warmup, thread B, child, parent -- one each, at the configured sink
    G = res.of("G")
    dump = drv.parse_dump(G[-1])
    if c["okind"] == "file":
        lines = (dump["log"][2] or b"").split(b"\n")[:-1]
    elif c["okind"] == "stdout":
        lines = dump["fd1"][2].split(b"\n")[:-1]
        if c["real"]:
            lines += [l for e in res.of("L") if int(e.f[0]) == dump["fd1"][1] for l in e.f[1].split(b"\n")[:-1]]
    elif c["okind"] == "devlog":
        lines = [x.split(b"]: ", 1)[-1] for x in dump["devlog"][2]]
    elif c["okind"] == "socket":
        lines = list(dump["sock"][2])
    else:
        lines = None
    if lines is not None:
        if c["real"] and c["okind"] in ("devlog", "socket"):
            pass   # datagrams sent by the child before exec are drained by whoever reads first; counted below leniently
        for tag in (b"warmup", b"thread-B-call", b"child-call", b"parent-after"):
            n = sum(1 for l in lines if l.endswith(tag))
            if n != 1 and not (c["real"] and tag == b"child-call" and c["okind"] in ("devlog", "socket", "stdout") and n <= 1):
                raise Failure("record of %s appears %d times (%s)" % (tag.decode(), n, what), {"records": lines[:8]}, key="records")
    return events, bool(parked)


_W = {}


def worker(args):
    idx, jobs = args
    ctx = _W["ctx"]
    b = _W["build"]
    d = drv.Driver(ctx.run, b, extra_preload=[os.path.join(drv.BUILD, "libsched.so")], timeout_ms=40000)
    local = Counters(ctx.known, idx)
    fails = []
    for okind, fmt, depth, real in jobs:
        # dry run: how many lock/unlock events does the call have?
        try:
            events, _ = run_case(d, {"okind": okind, "fmt": fmt, "k": 0, "depth": depth, "real": real})
        except Failure as f:
            if not fails:
                fails.append({"case": {"okind": okind, "fmt": fmt, "k": 0, "depth": depth, "real": real}, "what": f.what, "observed": f.observed, "expected": None})
            continue
        local.extra["lock_events_per_call"] = events
        for k in list(range(1, events + 1)) + [events + 5]:
            c = {"okind": okind, "fmt": fmt, "k": k, "depth": depth, "real": real}
            try:
                ev2, parked = run_case(d, c)
                local.count((k, okind, fmt, depth, real) if parked else None, ["out:" + okind, "depth:%d" % depth, "real" if real else "failing", "parked" if parked else "not-parked"],
                            sample=c)
            except Failure as f:
                local.count((k, okind, fmt, depth, real), ["out:" + okind, "violating"], sample=c)
                if local.is_known(f.key):
                    local.known_hit(f.key, f.what)
                elif f.key == "timeout":
                    ok, last = confirm(lambda cc: run_case(d, cc), c)
                    if ok and not fails:
                        fails.append({"case": c, "what": last.what, "observed": last.observed, "expected": None})
                    elif not ok:
                        local.inconclusive.append("timeout not reproduced 3/3: " + f.what)
                elif not fails:
                    ok, last = confirm(lambda cc: run_case(d, cc), c)
                    if ok:
                        fails.append({"case": c, "what": last.what, "observed": last.observed, "expected": None})
    d.close()
    return local.export(), fails


def main():
    ctx = Ctx(PID, "exploration", RULE)
    b = ctx.run.build("ts-plain")
    ctx.assumptions = ["scheduling points are the library's pthread_mutex_lock/unlock calls (interposed, no source change); a fork handler of "
                       "the library that waits for the parked thread's lock makes the harness release that thread (the harness is agnostic "
                       "about how fork-safety is achieved)", "in the single-threaded child a busy lock can never be released: deterministic verdict",
                       "exhaustive over the lock/unlock events of one call per explored configuration, not over arbitrary instructions"]
    if ctx.replay:
        case, _ = load_replay(ctx.replay)
        d = drv.Driver(ctx.run, b, extra_preload=[os.path.join(drv.BUILD, "libsched.so")], timeout_ms=40000)
        ctx.count("replay-1", ["replay"], sample=case)
        ctx.nontrivial.add("replay-2")
        try:
            run_case(d, case)
            print("replay: property holds for this case")
        except Failure as f:
            ctx.violation(case, f.observed, f.expected, f.what)
        d.close()
        ctx.finish()
    jobs = []
    cfgs = CONFIGS if not ctx.quick else CONFIGS[:5]
    for okind, fmt in cfgs:
        for depth in (1, 2):
            for real in (False, True):
                jobs.append((okind, fmt, depth, real))
    if not ctx.quick:
        rng = random.Random(ctx.seed)
        for _ in range(24):
            fmt = " ".join("%{" + rng.choice(["cmdline", "snoopy_threads", "tid", "uid", "login", "cwd", "tty", "env:X", "rpname", "username"]) + "}" for _ in range(rng.randint(1, 5)))
            fmt += " %{cmdline}"          # records are recognised by their trailing command line
            jobs.append((rng.choice(["file", "devlog", "stdout", "socket"]), fmt, rng.choice([1, 2]), rng.random() < 0.4))
    nw = 16
    _W.update({"ctx": ctx, "build": b})
    for out, fails in run_workers(worker, nw, [(i, jobs[i::nw]) for i in range(nw)]):
        ctx.merge(out)
        for f in fails[:1]:
            if len(ctx.violations) < 3:
                ctx.violation(f["case"], f["observed"], f["expected"], f["what"])
    ctx.extra["exhaustive"] = True
    ctx.extra["exhaustive_note"] = "every lock/unlock event k of the second thread's call, per explored (output, format, depth, exec kind)"
    ctx.finish()


if __name__ == "__main__":
    main_wrapper(main)
