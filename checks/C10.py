#!/usr/bin/env python3-vt
"""C10 -- exec in a forked child of a multithreaded process never deadlocks."""
import os
import random
import sys

sys.path.insert(0, os.path.join(os.path.dirname(os.path.abspath(__file__)), "..", "lib"))

import drv
import gen
from common import Ctx, Counters, Failure, Skip, confirm, main_wrapper, run_workers, load_replay

PID = "C10"
RULE = ("for each configuration (outputs file / devlog / stdout / devnull / socket; formats with and without %{snoopy_threads}; "
        "thorough: seeded random configurations as well) a second thread performs a wrapped exec and is parked by the mutex "
        "interposer right after its k-th lock-acquisition / unlock event, for EVERY k of the call (complete enumeration, k = 1..N "
        "from a dry run) and for k beyond N (fork with no thread inside the library); the main thread then fork()s; the child "
        "performs an exec (scripted failing and real), directly or after forking once more (depth 2); in further jobs a second thread of the parent calls fork() "
        "first and is still inside its fork handlers (waiting for the parked thread) when the main thread forks. Oracle: the child's call "
        "reaches the real exec and its record appears; a lock attempt in the single-threaded child on a mutex that trylock reports "
        "busy is a deterministic deadlock verdict, and so is a child found asleep at the 10 s backstop (in futex(): a single-threaded child has nobody to wake it; or in any other system call at two looks 300 ms apart without having used CPU time); a backstop hit without that is inconclusive, never a verdict; afterwards the "
        "parked thread and the parent complete their own calls with correct records. non-trivial = the fork was taken while the "
        "second thread was parked inside the call; distinct by (k, output, depth, real)")

ALL_DS = "".join("%{" + n + (":1" if n == "cgroup" else (":HOME" if n == "env" else "")) + "}|" for n in gen.ALL_SOURCES) + "%{cmdline}"
# data sources on their error / fallback paths (format too long for strftime, unset variable, no utmp record for the terminal ...)
ERR_DS = "%{datetime:" + "%c" * 12 + "};%{datetime:};%{env:NOT_SET};%{failure};%{cgroup:nosuchcontroller};%{ipaddr};%{tty_username};%{login};%{domain}|%{cmdline}"
CONFIGS = [("file", "%{cmdline}"), ("file", ALL_DS), ("file", ERR_DS), ("file", "%{snoopy_threads} %{cmdline}"), ("devlog", "%{cmdline}"), ("stdout", "%{snoopy_threads}:%{cmdline}"),
           ("devnull", "%{cmdline}"), ("socket", "%{tid}:%{cmdline}")]


def ini_for(out, okind, fmt):
    o = out.encode()
    if okind == "errlog-nodir":
        # every call raises an internal error (message longer than the limit) with error logging on, and the configured output cannot
        # deliver (directory missing): whatever the error handler falls back to runs in every call, in the parent's threads and in the child
        return gen.render_ini([(b"output", b"file:" + o + b"/no-such-dir/log"), (b"message_format", b"z" * 300 + b" " + fmt.encode()),
                               (b"error_logging", b"yes"), (b"log_message_max_length", b"255")])
    val = {"file": b"file:" + o + b"/log", "devlog": b"devlog", "stdout": b"stdout", "devnull": b"devnull", "socket": b"socket:" + o + b"/sock",
           "syslog": b"syslog"}[okind]
    return gen.render_ini([(b"output", val), (b"message_format", fmt.encode())])


def reconf_ini(out, okind):
    """configuration Y, written while the other threads are mid-call under X: same output, but NO message_format line any more"""
    o = out.encode()
    val = {"file": b"file:" + o + b"/log", "devlog": b"devlog", "stdout": b"stdout", "devnull": b"devnull", "socket": b"socket:" + o + b"/sock"}[okind]
    return gen.render_ini([(b"output", val)])


def run_case(d, c):
    """c: dict(okind, fmt, k, depth, real[, naux, auxk, warm]).  Returns (events_total, parked) ; raises Failure.
    depth 1: the child makes the call; 2: the child forks and the grandchild makes it; 3: the child makes a (failing) call, forks,
    and the grandchild makes the call again.  naux further threads of the parent are stopped in the middle of their own calls.
    warm=False: the second thread's call is the first call of the process (one-time initialisation included in the windows)."""
    out = d.out
    naux, warm = c.get("naux", 0), c.get("warm", True)
    child_path = drv.ARGDUMP.encode() if c["real"] else b"/bin/child"
    ops = [drv.op("x", out + "/log"), drv.op("S", 0, "pty")] + gen.std_sinks(out)[:5] + [drv.op("C", ini_for(out, c["okind"], c["fmt"]))] + \
          ([drv.op_exec("e", b"/bin/warm", [b"warmup"], [], ret=-1, err=2)] if warm else []) + [
                                                                   drv.op("J", c["k"], c["depth"], naux, c.get("auxk", 0),
                                                                          reconf_ini(out, c["okind"]) if c.get("reconf") else b"", 1 if c.get("twofork") else 0),
                                                                   drv.op_exec("e", b"/bin/B", [b"thread-B-call"], [], ret=-1, err=2, tno=0, callno=0),
                                                                   drv.op_exec("v" if c["depth"] == 2 else "e", child_path, [b"child-call"], [b"C=1"], ret=-1, err=2, real=c["real"]),
                                                                   drv.op_exec("e", b"/bin/P", [b"parent-after"], [], ret=-1, err=2),
                                                                   drv.op("L"), drv.op("G")]
    res = d.scenario(ops)
    reports = d.sanitizer_reports()
    what = "output %s, format %r, fork with second thread parked after event k=%d%s%s%s, depth %d, %s exec in the child" % (
        c["okind"], c["fmt"], c["k"], " and %d more threads inside their calls" % naux if naux else "", "" if warm else " of the process's first call",
        (", configuration file rewritten (message_format line removed) right before the fork" if c.get("reconf") else "") +
        (", a further thread calling fork() at the same time (its child makes the same call)" if c.get("twofork") else ""),
        c["depth"], "real" if c["real"] else "failing")
    J = res.of("j")
    if res.timedout or not J:
        raise Failure("scenario did not complete (%s)" % what, {"result": res.describe()}, key="hang")
    k, parked, events, status = int(J[0].f[0]), int(J[0].f[1]), int(J[0].f[2]), J[0].f[3].decode()
    dl = res.of("d")
    two = 1 if c.get("twofork") else 0
    if two and len(J[0].f) > 7:
        # the further forking thread's child is judged like the main thread's
        fst = J[0].f[7].decode()
        if fst not in ("ok", "none") and status == "ok":
            status = fst
    if status == "deadlock" or dl:
        raise Failure("child of fork() deadlocks in its exec call: %s (%s)" % (dl[0].f[0].decode() if dl else "lock busy forever", what),
                      {"parked_in_call": bool(parked), "events_in_call": events}, key="deadlock")
    if status == "timeout-futex":
        raise Failure("child of fork() is asleep in futex() for 10 s with nobody to wake it: its exec call blocks on a lock inherited from the parent (%s)" % what,
                      {"parked_in_call": bool(parked)}, key="deadlock")
    if status.startswith("timeout-blocked:"):
        raise Failure("child of fork() is asleep in system call %s for 10 s without using any CPU time: its exec call does not complete (%s)" % (status.split(":")[1], what),
                      {"parked_in_call": bool(parked)}, key="deadlock")
    if status == "timeout":
        raise Inconclusive("child's exec call did not complete within 10 s, but it is not asleep either (%s)" % what)
    if status != "ok" or not res.clean:
        raise Failure("child or parent ended abnormally: %s (%s)" % (status, what), {"result": res.describe(), "errors": res.errors(),
                                                                                      "sanitizer": [r[:1500] for r in reports[:1]]}, key="abnormal")
    if naux and len(J[0].f) > 6 and int(J[0].f[6]) != naux and c["k"]:
        raise Skip("auxiliary threads were not all stopped inside their calls")
    # the child's call reached the real exec
    if c["real"]:
        A = res.of("A")
        if len(A) != 1 or A[0].f[2:3] != [b"child-call"]:
            raise Failure("child's real exec did not start the target program (%s)" % what, None, key="child-exec")
    else:
        if len(res.of("c")) != (2 if c["depth"] == 3 else 1) + two:
            raise Failure("child's call did not return (%s)" % what, None, key="child-exec")
    Rs = res.of("R")
    nchild = (2 if c["depth"] == 3 else 1) + two
    want_calls = (1 if warm else 0) + 1 + naux + nchild + 1
    if len(Rs) != want_calls:
        raise Failure("%d of %d calls reached the real exec (%s)" % (len(Rs), want_calls, what), None, key="count")
    # records: warmup, thread B, child, parent -- one each, at the configured sink
    G = res.of("G")
    dump = drv.parse_dump(G[-1])
    if c["okind"] == "file":
        lines = (dump["log"][2] or b"").split(b"\n")[:-1]
    elif c["okind"] == "stdout":
        lines = dump["fd1"][2].split(b"\n")[:-1]
        if c["real"]:
            lines += [l for e in res.of("L") if int(e.f[0]) == dump["fd1"][1] for l in e.f[1].split(b"\n")[:-1]]
    elif c["okind"] == "devlog":
        lines = [x.split(b"]: ", 1)[-1] for x in dump["devlog"][2]]
    elif c["okind"] == "socket":
        lines = list(dump["sock"][2])
    else:
        lines = None
    if lines is not None:
        if c["real"] and c["okind"] in ("devlog", "socket"):
            pass   # datagrams sent by the child before exec are drained by whoever reads first; counted below leniently
        if c.get("reconf"):
            # calls that START after the file changed (the child's, the parent's next one) follow the new file: the default format,
            # not the "XCFG" format that was in force when the fork happened
            for l in lines:
                if (l.endswith(b"child-call") or l.endswith(b"parent-after")) and b"XCFG" in l:
                    raise Failure("a call made after the configuration file was rewritten still uses an option of the old file (%s)" % what,
                                  {"record": l[:200]}, key="stale-config")
        for tag, cnt in ((b"warmup", 1 if warm else 0), (b"thread-B-call", 1 + naux), (b"child-call", nchild), (b"parent-after", 1)):
            n = sum(1 for l in lines if l.endswith(tag))
            if n != cnt and not (c["real"] and tag == b"child-call" and c["okind"] in ("devlog", "socket", "stdout") and n <= 1):
                raise Failure("record of %s appears %d times (%s)" % (tag.decode(), n, what), {"records": lines[:8]}, key="records")
    return events, bool(parked)


SYSLOG_BUILD = "ts-plain-syslog"


class Inconclusive(Exception):
    pass


def run_sigfork(d, c):
    """fork() from a signal handler interrupting the CALLING thread at event k of its own call: parent and child both finish that call"""
    out = d.out
    ops = [drv.op("x", out + "/log"), drv.op("S", 0, "pty")] + gen.std_sinks(out)[:5] + [drv.op("C", ini_for(out, c["okind"], c["fmt"])),
           drv.op_exec("e", b"/bin/warm", [b"warmup"], [], ret=-1, err=2), drv.op("V", c["k"]),
           drv.op_exec("e", b"/bin/S", [b"interrupted-call"], [], ret=-1, err=2),
           drv.op_exec("e", b"/bin/P", [b"parent-after"], [], ret=-1, err=2), drv.op("L"), drv.op("G")]
    res = d.scenario(ops)
    reports = d.sanitizer_reports()
    what = "output %s, format %r, fork() in a signal handler that interrupts the calling thread after event k=%d of its own call" % (c["okind"], c["fmt"], c["k"])
    J = res.of("j")
    if res.timedout or not J:
        raise Failure("scenario did not complete (%s)" % what, {"result": res.describe()}, key="hang")
    status, parked = J[0].f[3].decode(), int(J[0].f[1])
    if status == "notparked":
        raise Skip("the calling thread did not reach event k")
    if status in ("deadlock", "timeout-futex") or status.startswith("timeout-blocked") or res.of("d"):
        raise Failure("child of a fork() taken inside the interrupted call cannot finish that call: %s (%s)" % (status, what), None, key="deadlock")
    if status == "timeout":
        raise Inconclusive("child did not finish within 10 s but is not asleep (%s)" % what)
    if status != "ok" or not res.clean:
        raise Failure("child of a fork() taken inside the interrupted call ended abnormally: %s (%s)" % (status, what),
                      {"result": res.describe(), "sanitizer": [r[:1500] for r in reports[:1]]}, key="abnormal")
    if len(res.of("c")) != 1:
        raise Failure("child did not complete the interrupted call (%s)" % what, None, key="child-exec")
    if len(res.of("R")) != 4:
        raise Failure("%d of 4 calls reached the real exec (warm-up, interrupted call in parent and child, parent's next) (%s)" % (len(res.of("R")), what), None, key="count")
    if c["okind"] == "file":
        lines = (drv.parse_dump(res.of("G")[-1])["log"][2] or b"").split(b"\n")[:-1]
        n = sum(1 for l in lines if l.endswith(b"interrupted-call"))
        # two records when the fork came before the record was written (parent and child each write it), one when it came after
        if n not in (1, 2) or sum(1 for l in lines if l.endswith(b"parent-after")) != 1:
            raise Failure("records after a fork() inside the interrupted call: %d for that call (1 or 2 expected) (%s)" % (n, what), {"records": lines[:6]}, key="records")
    return True


def rc_safe(d):
    def f(cc):
        try:
            return run_case(d, cc)
        except (Inconclusive, Skip):
            return None
    return f


# ------------------------------------------------------------------ phase 2: stopped INSIDE libc (tracer-injected delays)
DELAY_US = 700000
PRE_MS = 200
DELAY_FMT = "%{datetime}|%{login}|%{username}|%{eusername}|%{tty_username}|%{group}|%{hostname}|%{domain}|%{ipaddr}|%{cwd}|%{tty}|%{cgroup:1}|%{systemd_unit_name}|%{rpname}|%{cmdline}"
# (output, format, warm-up call first, depth, number of further threads making the same call at the same time)
DELAY_SHAPES = [("file", DELAY_FMT, False, 1, 0), ("file", DELAY_FMT, True, 1, 0), ("devlog", "%{cmdline}", False, 1, 0), ("file", DELAY_FMT, True, 1, 1),
                ("errlog-nodir", "%{cmdline}", True, 1, 0),
                # the syslog output (a build with --enable-output-syslog): the C library's openlog()/syslog()/closelog() and their lock
                ("syslog", "%{cmdline}", True, 1, 0),
                ("stdout", "%{username} %{cmdline}", False, 2, 0), ("socket", "%{datetime} %{cmdline}", True, 1, 2)]
PIDLINE = __import__("re").compile(r"^(\d+)\s+([a-z_0-9]+)\((.*)$")


def delay_ops(out, okind, fmt, warm, depth, nmore=0):
    return [drv.op("x", out + "/log"), drv.op("S", 0, "pty")] + gen.std_sinks(out)[:5] + [drv.op("C", ini_for(out, okind, fmt))] + \
           ([drv.op_exec("e", b"/bin/warm", [b"warmup"], [], ret=-1, err=2)] if warm else []) + [
            drv.op("I", PRE_MS, depth, nmore),
            drv.op_exec("e", b"/bin/B", [b"thread-B-call"], [], ret=-1, err=2, tno=0, callno=0),
            drv.op_exec("e", b"/bin/child", [b"child-call"], [b"C=1"], ret=-1, err=2),
            drv.op_exec("e", b"/bin/P", [b"parent-after"], [], ret=-1, err=2), drv.op("L"), drv.op("G")]


def thread_b_syscalls(logpath):
    """per-thread syscall ENTRIES of the second thread inside its wrapped call: [(name, ordinal-within-thread, text)]"""
    import trace
    main = None
    counts, inwin, b_pid, outl = {}, {}, None, []
    with open(logpath, "r", errors="replace") as f:
        for ln in f:
            m = PIDLINE.match(ln)
            if not m or "resumed>" in ln.split("(")[0]:
                continue
            pid, name = m.group(1), m.group(2)
            if main is None:
                main = pid
            counts[(pid, name)] = counts.get((pid, name), 0) + 1
            if name == "prctl" and trace.MARK in ln:
                mm = __import__("re").search(trace.MARK + r"[^,]*, (?:0x)?(\d)", ln)
                if mm and pid != main and (b_pid is None or pid == b_pid):
                    ph = int(mm.group(1))
                    if ph == 1 and b_pid is None:
                        b_pid = pid
                    inwin[pid] = ph in (1, 2)
                continue
            if pid == b_pid and inwin.get(pid):
                outl.append((name, counts[(pid, name)], ln.strip()[:140]))
    return outl


def delay_eval(os_, events, shape, inj):
    okind, fmt, warm, depth = shape[:4]
    nmore = shape[4] if len(shape) > 4 else 0
    what = "output %s, format %r, %s, depth %d, %s delayed by the tracer at %s" % (okind, fmt[:60], "warm" if warm else "first call of the process", depth,
                                                                                   "second thread" if not nmore else "each of %d other threads" % (nmore + 1), inj)
    J = [e for e in events if e.code == "j"]
    if not J:
        raise Inconclusive("traced scenario did not complete (%s)" % what)
    f = J[0].f
    inside, status = int(f[1]), f[3].decode()
    if status == "timeout-futex":
        raise Failure("child of fork() is asleep in futex() for 10 s with nobody to wake it: its exec call blocks on state inherited from the parent (%s)" % what,
                      {"second_thread_inside_its_call_at_fork": bool(inside)}, key="deadlock-libc")
    if status.startswith("timeout-blocked:"):
        raise Failure("child of fork() is asleep in system call %s for 10 s without using any CPU time: its exec call does not complete (%s)" % (status.split(":")[1], what),
                      {"second_thread_inside_its_call_at_fork": bool(inside)}, key="deadlock-libc")
    if status != "ok":
        raise Inconclusive("child: %s (%s)" % (status, what))
    if not int(f[4]):
        raise Failure("the parent's second thread never returned from its call (%s)" % what, None, key="parent-thread")
    return bool(inside)


def delay_worker(args):
    import trace
    idx, shapes = args
    ctx = _W["ctx"]
    oss = {}
    local = Counters(ctx.known, 100 + idx)
    fails = []
    for shape, plans in shapes:
        bname = SYSLOG_BUILD if shape[0] == "syslog" else "ts-plain"
        if bname not in oss:
            oss[bname] = trace.OneShot(ctx.run, _W["builds"][bname], "delay%d%s" % (idx, "sl" if bname == SYSLOG_BUILD else ""))
        os_ = oss[bname]
        os_.write_scenario(delay_ops(os_.out, *shape))
        for name, ordn, text in plans:
            inj = "%s:delay_enter=%d:when=%d" % (name, DELAY_US, ordn)
            c = {"shape": list(shape), "inject": inj, "at": text}
            def once():
                rc, events = os_.run_traced(["-e", "inject=" + inj], timeout=60, log=False, follow=True)
                return delay_eval(os_, events, shape, inj + " [" + text[:70] + "]")
            try:
                inside = once()
                local.count(("delay", shape[0], shape[2], shape[3], shape[4], name, ordn) if inside else None,
                            ["phase2:delayed-inside-libc", "out:" + shape[0], "syscall:" + name, "parked" if inside else "not-parked"], sample=c)
            except Inconclusive as e:
                local.count(None, ["phase2:inconclusive"])
                local.inconclusive.append(str(e)[:300])
            except Failure as f:
                local.count(("delay", shape[0], shape[2], shape[3], shape[4], name, ordn), ["phase2:delayed-inside-libc", "violating"], sample=c)
                if local.is_known(f.key):
                    local.known_hit(f.key, f.what)
                    continue
                n = 1
                last = f
                for _ in range(2):
                    try:
                        once()
                    except Failure as f2:
                        n += 1
                        last = f2
                    except Inconclusive:
                        pass
                if n == 3 and not fails:
                    fails.append({"case": c, "what": last.what, "observed": last.observed, "expected": None})
    return local.export(), fails


def delay_phase(ctx, builds):
    import trace
    shapes = DELAY_SHAPES[:6] if ctx.quick else DELAY_SHAPES
    per_shape = []
    os_plain = trace.OneShot(ctx.run, builds["ts-plain"], "delaydry")
    os_syslog = trace.OneShot(ctx.run, builds[SYSLOG_BUILD], "delaydrysl") if SYSLOG_BUILD in builds else None
    for shape in shapes:
        os_ = os_syslog if shape[0] == "syslog" else os_plain
        if os_ is None:
            continue
        os_.write_scenario(delay_ops(os_.out, *shape))
        rc, events = os_.run_traced([], timeout=60, follow=True)
        plans = thread_b_syscalls(os_.log)
        if rc != 0 or not plans:
            ctx.inconclusive.append("phase 2 dry run failed for %r (rc=%s, %d syscalls)" % (shape[:1], rc, len(plans)))
            continue
        if ctx.quick and len(plans) > 70:
            st = len(plans) / 70.0
            plans = [plans[int(i * st)] for i in range(70)]
        per_shape.append((shape, plans))
    ctx.extra["phase2_syscalls_of_second_thread"] = {s[0] + ("/warm" if s[2] else "/first") + "/d%d/threads%d" % (s[3], 1 + s[4]): len(p) for s, p in per_shape}
    # spread the plans over the workers
    nw = 16
    buckets = [[] for _ in range(nw)]
    i = 0
    for shape, plans in per_shape:
        for k in range(nw):
            part = plans[k::nw]
            if part:
                buckets[(k + i) % nw].append((shape, part))
        i += 3
    for out, fails in run_workers(delay_worker, nw, [(k, buckets[k]) for k in range(nw)]):
        ctx.merge(out)
        for f in fails[:1]:
            if len(ctx.violations) < 3:
                ctx.violation(f["case"], f["observed"], f["expected"], f["what"])


_W = {}


def worker(args):
    idx, jobs = args
    ctx = _W["ctx"]
    drivers = {}

    def driver(variant):
        if variant not in drivers:
            drivers[variant] = drv.Driver(ctx.run, _W["builds"][variant], extra_preload=[os.path.join(drv.BUILD, "libsched.so")], timeout_ms=40000)
        return drivers[variant]
    local = Counters(ctx.known, idx)
    fails = []
    for job in jobs:
        okind, fmt, depth, real = job[:4]
        opt = job[4] if len(job) > 4 else {}
        if opt.get("sigfork"):
            d = driver("ts-plain")
            try:
                events, _ = run_case(d, {"okind": okind, "fmt": fmt, "k": 0, "depth": 1, "real": False})
            except (Failure, Inconclusive, Skip):
                continue
            for k in range(1, events + 1):
                c = {"okind": okind, "fmt": fmt, "k": k, "sigfork": True}
                try:
                    run_sigfork(d, c)
                    local.count((k, okind, fmt, "sigfork"), ["out:" + okind, "fork-in-signal-handler-on-the-calling-thread"], sample=c)
                except Skip:
                    local.count(None, ["skipped:not-parked"])
                except Inconclusive as e:
                    local.inconclusive.append(str(e)[:300])
                except Failure as f:
                    local.count((k, okind, fmt, "sigfork"), ["out:" + okind, "violating"], sample=c)
                    if local.is_known(f.key):
                        local.known_hit(f.key, f.what)
                    elif not fails:
                        n = 1
                        for _ in range(2):
                            try:
                                run_sigfork(d, c)
                            except Failure:
                                n += 1
                            except (Skip, Inconclusive):
                                pass
                        if n == 3:
                            fails.append({"case": c, "what": f.what, "observed": f.observed, "expected": None})
            continue
        naux, warm, variant = opt.get("naux", 0), opt.get("warm", True), opt.get("variant", "ts-plain")
        reconf = opt.get("reconf", False)
        twofork = opt.get("twofork", False)
        d = driver(variant)
        base = {"okind": okind, "fmt": fmt, "depth": depth, "real": real, "naux": 0, "auxk": 0, "warm": warm, "variant": variant, "reconf": reconf, "twofork": twofork}
        # dry run: how many lock/unlock events does the call have?
        try:
            events, _ = run_case(d, dict(base, k=0))
        except Inconclusive as e:
            local.inconclusive.append(str(e)[:300])
            continue
        except Failure as f:
            if not fails:
                fails.append({"case": dict(base, k=0), "what": f.what, "observed": f.observed, "expected": None})
            continue
        local.extra["lock_events_per_call"] = events
        base.update({"naux": naux, "auxk": max(1, events // 2) if naux else 0})
        for k in list(range(1, events + 1)) + [events + 5]:
            c = dict(base, k=k)
            try:
                ev2, parked = run_case(d, c)
                local.count((k, okind, fmt, depth, real, naux, warm, variant, twofork) if parked else None,
                            ["out:" + okind, "depth:%d" % depth, "real" if real else "failing", "parked" if parked else "not-parked", "build:" + variant] +
                            (["more-threads-inside:%d" % naux] if naux else []) + ([] if warm else ["first-call-of-process"]) +
                            (["config-rewritten-before-fork"] if reconf else []) + (["two-threads-forking"] if twofork else []), sample=c)
            except Skip:
                local.count(None, ["skipped:aux-not-parked"])
            except Inconclusive as e:
                local.count(None, ["inconclusive:slow"])
                local.inconclusive.append(str(e)[:300])
            except Failure as f:
                local.count((k, okind, fmt, depth, real), ["out:" + okind, "violating"], sample=c)
                if local.is_known(f.key):
                    local.known_hit(f.key, f.what)
                elif not fails:
                    ok, last = confirm(rc_safe(d), c)
                    if ok:
                        fails.append({"case": c, "what": last.what, "observed": last.observed, "expected": None})
    for d in drivers.values():
        d.close()
    return local.export(), fails


def main():
    ctx = Ctx(PID, "exploration", RULE)
    bl = ctx.run.build_many(["ts-plain", "ts-asan", {"variant": "ts-plain", "name": SYSLOG_BUILD, "extra_configure": ["--enable-output-syslog"]}])
    builds = {"ts-plain": bl[0], "ts-asan": bl[1], SYSLOG_BUILD: bl[2]}
    b = builds["ts-plain"]
    ctx.assumptions = ["scheduling points are the library's pthread_mutex_lock/unlock calls (interposed, no source change); a fork handler of "
                       "the library that waits for the parked thread's lock makes the harness release that thread (the harness is agnostic "
                       "about how fork-safety is achieved)", "in the single-threaded child a busy lock can never be released: deterministic verdict",
                       "exhaustive over the lock/unlock events of one call per explored configuration, not over arbitrary instructions"]
    if ctx.replay:
        case, _ = load_replay(ctx.replay)
        if "inject" in case:
            import trace
            shape = tuple(case["shape"])
            os_ = trace.OneShot(ctx.run, builds[SYSLOG_BUILD] if shape[0] == "syslog" else b, "replay")
            os_.write_scenario(delay_ops(os_.out, *shape))
            rc, events = os_.run_traced(["-e", "inject=" + case["inject"]], timeout=60, follow=True)
            ctx.count("replay-1", ["replay"], sample=case)
            ctx.nontrivial.add("replay-2")
            try:
                delay_eval(os_, events, shape, case["inject"])
                print("replay: property holds for this case")
            except Inconclusive as e:
                ctx.inconclusive.append(str(e))
            except Failure as f:
                ctx.violation(case, f.observed, f.expected, f.what)
            ctx.finish()
        if case.get("sigfork"):
            d = drv.Driver(ctx.run, b, extra_preload=[os.path.join(drv.BUILD, "libsched.so")], timeout_ms=40000)
            ctx.count("replay-1", ["replay"], sample=case)
            ctx.nontrivial.add("replay-2")
            try:
                run_sigfork(d, case)
                print("replay: property holds for this case")
            except (Inconclusive, Skip) as e:
                ctx.inconclusive.append(str(e))
            except Failure as f:
                ctx.violation(case, f.observed, f.expected, f.what)
            d.close()
            ctx.finish()
        d = drv.Driver(ctx.run, builds[case.get("variant", "ts-plain")], extra_preload=[os.path.join(drv.BUILD, "libsched.so")], timeout_ms=40000)
        ctx.count("replay-1", ["replay"], sample=case)
        ctx.nontrivial.add("replay-2")
        try:
            run_case(d, case)
            print("replay: property holds for this case")
        except Inconclusive as e:
            ctx.inconclusive.append(str(e))
        except Failure as f:
            ctx.violation(case, f.observed, f.expected, f.what)
        d.close()
        ctx.finish()
    jobs = []
    cfgs = CONFIGS if not ctx.quick else CONFIGS[:6]
    for okind, fmt in cfgs:
        for depth in (1, 2):
            for real in (False, True):
                jobs.append((okind, fmt, depth, real))
    # further shapes: more threads of the parent inside the library (memory-checked build), the second thread inside the process's
    # FIRST call (one-time initialisation), a child whose own call fails and which then forks again
    for okind, fmt in (CONFIGS[1], CONFIGS[3]) if ctx.quick else CONFIGS[:5]:
        jobs.append((okind, fmt, 1, False, {"naux": 2, "variant": "ts-asan"}))
        jobs.append((okind, fmt, 3, False, {"warm": False}))
        jobs.append((okind, fmt, 1, True, {"warm": False, "variant": "ts-asan"}))
        if not ctx.quick:
            jobs.append((okind, fmt, 3, False, {"naux": 3}))
            jobs.append((okind, fmt, 2, False, {"naux": 1, "warm": False, "variant": "ts-asan"}))
    # the configuration file changes while other threads are mid-call: the child's call sees the new file only
    for okind in ("file", "stdout") if ctx.quick else ("file", "stdout", "socket", "devlog"):
        jobs.append((okind, "XCFG %{cmdline}", 1, False, {"reconf": True, "naux": 1}))
        if not ctx.quick:
            jobs.append((okind, "XCFG %{snoopy_threads} %{cmdline}", 2, False, {"reconf": True, "naux": 2, "variant": "ts-asan"}))
    # two threads of the parent fork at the same time (the first one is still inside its fork handlers, waiting for the parked thread)
    for okind, fmt in [CONFIGS[0], CONFIGS[1]] if ctx.quick else CONFIGS[:5]:
        jobs.append((okind, fmt, 1, False, {"twofork": True}))
        if not ctx.quick:
            jobs.append((okind, fmt, 1, False, {"twofork": True, "naux": 1, "warm": False}))
    # fork() from a signal handler on the calling thread itself, at every event of its call
    for okind, fmt in [CONFIGS[0], CONFIGS[2]] if ctx.quick else CONFIGS[:5]:
        jobs.append((okind, fmt, 1, False, {"sigfork": True}))
    jobs.sort(key=lambda j: -len(j[1]))
    if not ctx.quick:
        rng = random.Random(ctx.seed)
        for _ in range(24):
            fmt = " ".join("%{" + rng.choice(["cmdline", "snoopy_threads", "tid", "uid", "login", "cwd", "tty", "env:X", "rpname", "username"]) + "}" for _ in range(rng.randint(1, 5)))
            fmt += " %{cmdline}"          # records are recognised by their trailing command line
            jobs.append((rng.choice(["file", "devlog", "stdout", "socket"]), fmt, rng.choice([1, 2]), rng.random() < 0.4))
    nw = 16
    _W.update({"ctx": ctx, "builds": builds})
    for out, fails in run_workers(worker, nw, [(i, jobs[i::nw]) for i in range(nw)]):
        ctx.merge(out)
        for f in fails[:1]:
            if len(ctx.violations) < 3:
                ctx.violation(f["case"], f["observed"], f["expected"], f["what"])
    delay_phase(ctx, builds)
    ctx.extra["exhaustive"] = True
    ctx.extra["exhaustive_note"] = "every lock/unlock event k of the second thread's call, per explored (output, format, depth, exec kind)"
    ctx.finish()


if __name__ == "__main__":
    main_wrapper(main)
