#!/usr/bin/env python3-vt
"""C02 -- no configuration or exec input can crash or corrupt the calling process."""
import glob
import hashlib
import json
import os
import re
import shutil
import subprocess
import sys
import time

sys.path.insert(0, os.path.join(os.path.dirname(os.path.abspath(__file__)), "..", "lib"))
from hypothesis import strategies as st

import drv
import gen
import pbt
from build import VERIF, infra_fail
from common import Ctx, Failure, main_wrapper, REPLAY_DIR, jsonable

PID = "C02"
RULE = ("(a) coverage-guided fuzzing (libFuzzer, clang ASan+UBSan build of the working tree, coverage from libsnoopy.so itself): "
        "bytes -> {environ mode keep/replace/NULL/huge, execv|execve, path, argv (or NULL), envp (or NULL), rest = snoopy.ini "
        "bytes up to 8 KiB}, one wrapped call per input through the public execv/execve symbols; in-target oracle: recording "
        "real-exec reached exactly once with the caller's pointers and its (-1, errno) returned unchanged; sanitizer reports, "
        "fatal signals and 30 s timeouts (3/3 reproductions) are violations. (b) Hypothesis boundary sweep per component: "
        "every data source / filter / output with its argument string and both limits from {255..1048575}, natural output "
        "lengths steered to L-2..L+3 (cmdline, filename, env, env_all, cwd, login, hostname, datetime, literal); two cases in five make the call from a "
        "thread with a 64 or 128 KiB stack (plain build, a stack overflow is a fatal signal). non-trivial "
        "(a) = corpus unit whose config part contains [snoopy] and a recognised option name, counted as distinct coverage-"
        "increasing units kept by the fuzzer; (b) = case whose steered output is within 3 of a limit; distinct by component x "
        "limit x delta")

CORPUS = os.path.join(VERIF, "corpus", "C02")
DICT = os.path.join(VERIF, "corpus", "C02.dict")
OPTS = [b"message_format", b"filter_chain", b"output", b"error_logging", b"syslog_facility", b"syslog_level", b"syslog_ident",
        b"datasource_message_max_length", b"log_message_max_length"]
LIMITS = [255, 256, 257, 1023, 4095, 4096, 65535, 1048575]


# ------------------------------------------------------------------ (a) libFuzzer
def build_target(run, fb):
    exe = os.path.join(run.dir, "fuzz_exec-" + fb["name"])
    libdir = os.path.dirname(fb["lib"])
    # everything the sandboxed (uid 65534) fuzz process needs lives in the world-readable run directory
    fzlib = os.path.join(run.dir, "fzlib")
    os.makedirs(fzlib, exist_ok=True)
    shutil.copy(os.path.join(VERIF, "build", "librecorder.so"), fzlib)
    shutil.copy(DICT, os.path.join(run.dir, "C02.dict"))
    os.chmod(fzlib, 0o755)
    cmd = ["clang++", "-std=gnu++17", "-g", "-O1", "-fsanitize=fuzzer,address,undefined", "-fno-sanitize-recover=undefined",
           os.path.join(VERIF, "harness", "fuzz_exec.cpp"), "-o", exe, "-L" + libdir, "-lsnoopy",
           "-L" + fzlib, "-lrecorder", "-Wl,-rpath," + libdir, "-Wl,-rpath," + fzlib]
    p = subprocess.run(cmd, stdout=subprocess.PIPE, stderr=subprocess.STDOUT)
    if p.returncode != 0:
        infra_fail("fuzz target does not build: " + p.stdout.decode()[-2000:])
    return exe


def fuzz_env(run, i):
    return {"PATH": "/usr/bin:/bin", "VERIF_INI": run.ini, "FUZZ_COUNTERS": os.path.join(run.dir, "fz-%d" % i, "counters.json"),
            "ASAN_OPTIONS": "abort_on_error=1:detect_leaks=0:symbolize=1:allocator_may_return_null=1:detect_stack_use_after_return=0",
            "UBSAN_OPTIONS": "print_stacktrace=1:abort_on_error=1", "TZ": "UTC", "LLVM_SYMBOLIZER_PATH": "/usr/bin/llvm-symbolizer-14"}


def box(run, i, cmd):
    wd = os.path.join(run.dir, "fz-%d" % i)
    etc = os.path.join(wd, "etc")
    os.makedirs(etc, exist_ok=True)
    os.chmod(wd, 0o777)
    os.chmod(etc, 0o777)
    fb = os.path.join(run.dir, "fuzzbox.sh")
    if not os.path.exists(fb):
        shutil.copy(os.path.join(VERIF, "harness", "fuzzbox.sh"), fb)
        os.chmod(fb, 0o755)
    return [fb, run.dir, etc, run.etc, "--"] + cmd


def run_unit(run, exe, i, path, timeout=30):
    """Execute one saved input; returns (crashed, hung, output)."""
    cmd = box(run, i, [exe, "-timeout=%d" % timeout, "-detect_leaks=0", "-rss_limit_mb=4096", path])
    try:
        p = subprocess.run(cmd, env=fuzz_env(run, i), stdout=subprocess.PIPE, stderr=subprocess.STDOUT, timeout=timeout + 30,
                           cwd=os.path.join(run.dir, "fz-%d" % i))
    except subprocess.TimeoutExpired:
        return False, True, b""
    out = p.stdout
    hung = b"ERROR: libFuzzer: timeout" in out
    crashed = p.returncode != 0 and not hung
    return crashed, hung, out


def classify_report(out):
    """Root-cause key of a sanitizer report: kind + first snoopy frame."""
    kind = "crash"
    m = re.search(rb"ERROR: AddressSanitizer: ([a-zA-Z0-9_-]+)", out)
    if m:
        kind = "asan-" + m.group(1).decode()
    elif b"runtime error:" in out:
        kind = "ubsan"
    elif b"deadly signal" in out:
        kind = "signal"
    elif b"libFuzzer: timeout" in out:
        kind = "hang"
    frame = ""
    for ln in out.split(b"\n"):
        m = re.search(rb"#\d+ 0x[0-9a-f]+ in (\S+) .*?/src-fuzz(?:-nts)?/(\S+?):(\d+)", ln)
        if m and b"fuzz_exec" not in ln:
            frame = "%s@%s" % (m.group(1).decode(), m.group(2).decode())
            break
    if not frame:
        m = re.search(rb"([a-zA-Z0-9_./-]+\.c:\d+):\d+: runtime error", out)
        if m:
            frame = m.group(1).decode()
    return kind + ":" + frame


def has_option(unit):
    return b"[snoopy]" in unit and any(o in unit for o in OPTS)


def fuzz_phase(ctx, fb, fb_nts=None):
    run = ctx.run
    exe = build_target(run, fb)
    exe_nts = build_target(run, fb_nts) if fb_nts else exe
    nw = 16
    budget = int(os.environ.get("VERIF_FUZZ_SECONDS", "0")) or (40 if ctx.quick else 900)
    procs = []
    t0 = time.time()
    # 1. saved regression units + seeds, outside the fuzzing loop (seconds-long replay tier)
    os.makedirs(os.path.join(run.dir, "fz-0"), exist_ok=True)
    saved = os.path.join(run.dir, "saved")
    shutil.copytree(CORPUS, saved)
    subprocess.run(["chmod", "-R", "a+rX", saved])
    for f in sorted(glob.glob(os.path.join(saved, "*"))):
        crashed, hung, out = run_unit(run, exe, 0, f)
        ctx.count("saved:" + os.path.basename(f), ["saved-unit"], sample={"saved_unit": os.path.basename(f)})
        if crashed or hung:
            report_unit(ctx, run, exe, f, out, "saved unit " + os.path.basename(f))
    # 2. campaigns
    for i in range(nw):
        wd = os.path.join(run.dir, "fz-%d" % i)
        corp = os.path.join(wd, "corpus")
        art = os.path.join(wd, "art")
        os.makedirs(corp, exist_ok=True)
        os.makedirs(art, exist_ok=True)
        if i % 4 != 3:          # three of four workers start from the seeds, one from an empty corpus
            for f in glob.glob(os.path.join(CORPUS, "*")):
                shutil.copy(f, corp)
        for d_ in (wd, corp, art):
            os.chmod(d_, 0o777)
        subprocess.run(["chmod", "-R", "a+rwX", wd])
        # every fourth worker fuzzes the non-thread-safe build (static configuration/input storage, state carried between calls)
        wexe = exe_nts if i % 4 == 2 else exe
        cmd = box(run, i, [wexe, "-seed=%d" % (ctx.seed * 100 + i + 1), "-max_total_time=%d" % budget, "-max_len=8192", "-timeout=30",
                           "-detect_leaks=0", "-rss_limit_mb=4096", "-dict=" + os.path.join(run.dir, "C02.dict"), "-artifact_prefix=" + art + "/",
                           "-print_final_stats=1", "-use_value_profile=%d" % (i % 2), corp])
        log = open(os.path.join(wd, "log.txt"), "wb")
        procs.append((i, subprocess.Popen(cmd, env=fuzz_env(run, i), stdout=log, stderr=subprocess.STDOUT, cwd=wd), wd))
    # a worker that finds a crash stops; restart it on the remaining budget so the search continues behind the finding
    found = {}
    while procs:
        time.sleep(1.0)
        still = []
        for i, p, wd in procs:
            if p.poll() is None:
                still.append((i, p, wd))
        procs = still
        if time.time() - t0 > budget + 120:
            for i, p, wd in procs:
                p.kill()
            break
    execs = 0
    units = 0
    nontriv_units = set()
    samples = []
    for i in range(nw):
        wd = os.path.join(run.dir, "fz-%d" % i)
        try:
            log = open(os.path.join(wd, "log.txt"), "rb").read()
        except OSError:
            log = b""
        m = re.search(rb"stat::number_of_executed_units:\s*(\d+)", log)
        if m:
            execs += int(m.group(1))
        else:
            ms = re.findall(rb"#(\d+)\s", log)
            if ms:
                execs += int(ms[-1])
        for f in glob.glob(os.path.join(wd, "corpus", "*")):
            try:
                u = open(f, "rb").read()
            except OSError:
                continue
            units += 1
            if has_option(u):
                h = hashlib.sha1(u).hexdigest()
                if h not in nontriv_units and len(samples) < 5 and len(u) < 400:
                    samples.append(jsonable(u))
                nontriv_units.add(h)
        for a in sorted(glob.glob(os.path.join(wd, "art", "*"))):
            base = os.path.basename(a)
            if base.startswith(("crash-", "timeout-")):
                uexe = exe_nts if i % 4 == 2 else exe
                crashed, hung, out = run_unit(run, uexe, i, a)
                if base.startswith("timeout-"):
                    # load noise unless it hangs every time
                    again = [run_unit(run, uexe, i, a)[1] for _ in range(2)]
                    if not (hung and all(again)):
                        ctx.inconclusive.append("timeout unit did not reproduce 3/3: " + base)
                        continue
                elif not crashed:
                    ctx.inconclusive.append("crash unit did not reproduce: " + base)
                    continue
                report_unit(ctx, run, uexe, a, out, "found by fuzzing worker %d%s" % (i, " (non-thread-safe build)" if uexe is exe_nts and exe_nts is not exe else ""))
    ctx.evaluations += execs
    ctx.extra["fuzz_executions"] = execs
    ctx.extra["fuzz_corpus_units"] = units
    ctx.extra["fuzz_workers"] = nw
    ctx.extra["fuzz_seconds_per_worker"] = budget
    for h in nontriv_units:
        ctx.nontrivial.add("unit:" + h)
    for s in samples:
        ctx.samples.append({"fuzz_corpus_unit": s})
    if execs < 1000:
        infra_fail("fuzzing made almost no progress (%d executions): target or sandbox broken" % execs)


_seen_keys = set()


def report_unit(ctx, run, exe, path, out, origin):
    key = classify_report(out)
    if ctx.is_known(key):
        ctx.known_hit(key, origin)
        return
    if key in _seen_keys:
        return
    _seen_keys.add(key)
    os.makedirs(REPLAY_DIR, exist_ok=True)
    data = open(path, "rb").read()
    h = hashlib.sha1(data).hexdigest()[:12]
    dst = os.path.join(REPLAY_DIR, "C02-%s.bin" % h)
    with open(dst, "wb") as f:
        f.write(data)
    idx = out.find(b"ERROR:")
    ctx.violations.append({"replay": dst, "what": "%s (%s)" % (key, origin),
                           "observed": jsonable(out[max(0, idx):max(0, idx) + 2500]), "expected": None})


# ------------------------------------------------------------------ (b) boundary sweep
NOARG = ["cmdline", "cwd", "domain", "egid", "egroup", "env_all", "euid", "eusername", "filename", "gid", "group", "hostname", "ipaddr",
         "login", "pid", "ppid", "rpname", "sid", "snoopy_configure_command", "snoopy_threads", "snoopy_version", "systemd_unit_name",
         "tid", "tid_kernel", "timestamp", "timestamp_ms", "timestamp_us", "tty", "tty_uid", "tty_username", "uid", "username",
         "failure", "noop"]
WITHARG = ["cgroup", "datetime", "env", "snoopy_literal"]
STEERED = ["cmdline", "filename", "env", "env_all", "cwd", "login", "hostname", "datetime", "snoopy_literal"]


def strategy():
    @st.composite
    def case(draw):
        comp = draw(st.sampled_from(["ds"] * 6 + ["filter", "output"]))
        l_ds = draw(st.sampled_from(LIMITS))
        l_log = draw(st.sampled_from(LIMITS))
        delta = draw(st.sampled_from([-2, -1, 0, 1, 2, 3]))
        which = draw(st.sampled_from(["ds", "ds", "log"]))
        # some callers are threads with a small stack (64-128 KiB): nothing proportional to the configured limits may live on the stack
        stack = draw(st.sampled_from([0, 0, 0, 65536, 131072]))
        if stack:
            # the interesting combination: buffers as large as the configuration allows, stack as small as threads get
            l_ds = draw(st.sampled_from([65535, 1048575, 1048575]))
            l_log = draw(st.sampled_from([65535, 1048575, 1048575]))
        # some callers hold more than a thousand open descriptors (busy servers): whatever the library opens gets a number >= 1024
        manyfds = 0 if stack else draw(st.sampled_from([0, 0, 0, 0, 1100, 1130, 1300, 2500]))
        c = {"comp": comp, "l_ds": l_ds, "l_log": l_log, "delta": delta, "which": which, "stack": stack, "manyfds": manyfds}
        if comp == "ds":
            c["name"] = draw(st.sampled_from(STEERED * 3 + NOARG + WITHARG))
            c["arg"] = draw(st.one_of(st.none(), gen.text_bytes(0, 20), gen.text_bytes(200, 900, boundaries=(254, 255, 256, 900)),
                                      st.sampled_from([b"%", b"%Y" * 100, b"%c%c%c%c%c%c%c%c%c%c", b"%s", b"1", b"name=systemd", b"A=B"])))
        elif comp == "filter":
            c["name"] = draw(st.sampled_from(["only_uid", "exclude_uid", "exclude_spawns_of", "only_root", "only_tty", "noop", "bogus"]))
            n = draw(st.sampled_from([0, 1, 2, 50, 300]))
            c["arg"] = b",".join(draw(st.lists(st.one_of(gen.ident_bytes(0, 20), st.sampled_from([b"", b"0", b"-1", b"99999999999999999999", b"x" * 40])),
                                              min_size=n, max_size=n)))
        else:
            c["name"] = draw(st.sampled_from(["file", "socket", "devlog", "devnull", "devtty", "stdout", "stderr", "noop", "bogus"]))
            c["arg"] = draw(st.one_of(st.none(), gen.text_bytes(0, 30), gen.text_bytes(100, 900, boundaries=(106, 107, 108, 109, 900)),
                                      st.sampled_from([b"/dev/full", b"%{cmdline}", b"/tmp/" + b"d/" * 400])))
        return c
    return case()


def evaluate(env, c):
    stack = c.get("stack", 0)
    d = env.driver("ts-plain" if stack else "ts-asan")
    out = d.out
    target = (c["l_ds"] if c["which"] == "ds" else c["l_log"]) + c["delta"]
    target = max(0, min(target, 1048575 + 3))
    arg = c["arg"]
    if arg is not None:
        arg = gen.make_safe(arg.replace(b"}", b")"))
    environ = [b"HOME=/root", b"TZ=UTC"]
    path, argv = b"/bin/p", [b"p", b"q"]
    ops_pre = []
    name = c["name"]
    fmt = b"%{cmdline}"
    opts = []
    if c["comp"] == "ds":
        tag = b"%{" + name.encode() + (b":" + arg if arg is not None and name in WITHARG else b"") + b"}"
        if name == "cmdline":
            argv = [b"c" * target]
        elif name == "filename":
            path = b"/" + b"f" * max(0, target - 1)
        elif name == "env":
            tag = b"%{env:BIG}"
            environ.append(b"BIG=" + b"e" * target)
        elif name == "env_all":
            environ = [b"E=" + b"v" * max(0, target - 2)] if target < 400000 else [b"E%d=" % i + b"v" * 1000 for i in range(target // 1006 + 1)]
        elif name == "cwd":
            work = os.path.join(out, "w")
            shutil.rmtree(work, ignore_errors=True)
            os.makedirs(work)
            os.chmod(work, 0o777)
            comps = []
            remaining = min(target, 4090) - len(work)
            while remaining > 1:
                n = min(200, remaining - 1)
                comps.append(b"d" * n)
                remaining -= n + 1
            ops_pre += [drv.op("H", work)] + ([drv.op("h", *comps)] if comps else [])
        elif name == "login":
            environ.append(b"LOGNAME=" + b"l" * min(target, 5000))
        elif name == "hostname":
            ops_pre.append(drv.op("n", b"h" * max(1, min(target, 64))))
        elif name == "datetime":
            lit = b"T" * min(max(0, target), 900)
            tag = b"%{datetime:" + lit + b"}"
        elif name == "snoopy_literal":
            tag = b"%{snoopy_literal:" + b"L" * min(target, 950) + b"}"
        fmt = b"<" + tag + b">"
        opts.append((b"message_format", fmt))
        opts.append((b"output", b"file:" + out.encode() + b"/log"))
    elif c["comp"] == "filter":
        opts.append((b"filter_chain", name.encode() + (b":" + arg if arg is not None else b"")))
        opts.append((b"output", b"devnull"))
        argv = [b"c" * min(target, 70000)]
    else:
        opts.append((b"output", name.encode() + (b":" + arg if arg is not None else b"")))
        opts.append((b"message_format", b"%{cmdline}"))
        argv = [b"c" * target]
    opts += [(b"datasource_message_max_length", str(c["l_ds"]).encode()), (b"log_message_max_length", str(c["l_log"]).encode())]
    ini = gen.render_ini(opts)
    lines = ini.split(b"\n")
    if any(len(l) > 1500 for l in lines):
        return
    ops = [drv.op("x", out + "/log"), drv.op("S", 1, "null"), drv.op("S", 2, "null"), drv.op("K", "devlog", out + "/devlog.sock", 1),
           drv.op("C", ini)] + ops_pre + [drv.op_env(environ)]
    if c.get("manyfds"):
        ops.append(drv.op("O", c["manyfds"]))
    if stack:
        ops += [drv.op("t", stack), drv.op("Z", 1, 0), drv.op_exec("e", path, argv, [b"X=1"], ret=-1, err=5, tno=0, callno=0)]
    else:
        ops.append(drv.op_exec("e", path, argv, [b"X=1"], ret=-1, err=5))
    res = d.scenario(ops)
    reports = d.sanitizer_reports()
    errs = res.errors()
    if res.timedout:
        raise Failure("wrapped call hangs", {"case": c["comp"] + ":" + name}, key="hang")
    if res.signaled or res.exitcode != 0 or reports:
        raise Failure("memory-safety / UB report or fatal signal in %s '%s' (L_ds=%d, L_log=%d, steered length %d%s)" % (
            c["comp"], name, c["l_ds"], c["l_log"], target, (", caller is a thread with a %d KiB stack" % (stack // 1024) if stack else "") + (", caller holds %d open descriptors" % c["manyfds"] if c.get("manyfds") else "")), {"result": res.describe(), "sanitizer": [r[:2500] for r in reports[:1]]},
            key="crash:" + classify_report(reports[0].encode("latin-1", "replace") if reports else b""))
    R, T = res.of("R"), res.of("T")
    if len(R) != 1 or len(T) != 1 or int(T[0].f[0]) != -1 or int(T[0].f[1]) != 5:
        raise Failure("control did not reach the real exec exactly once / result altered", {"result": res.describe(), "errors": errs}, key="exec")


def classify(c):
    steered = c["comp"] != "ds" or c["name"] in STEERED
    key = (c["comp"], c["name"], c["which"], c["l_ds"] if c["which"] == "ds" else c["l_log"], c["delta"], c.get("stack", 0), c.get("manyfds", 0)) if steered else None
    return key, ["sweep", "sweep:" + c["comp"], "limit:" + c["which"], "sweep:" + c["comp"] + ":" + c["name"]] + (["sweep:small-thread-stack"] if c.get("stack") else []) + (["sweep:caller-holds->1024-descriptors"] if c.get("manyfds") else [])


def main():
    ctx = Ctx(PID, "exploration", RULE)
    if ctx.replay and ctx.replay.endswith(".bin"):
        fb = ctx.run.build("fuzz")
        exe = build_target(ctx.run, fb)
        os.makedirs(os.path.join(ctx.run.dir, "fz-0"), exist_ok=True)
        crashed, hung, out = run_unit(ctx.run, exe, 0, ctx.replay)
        ctx.count("replay-1", ["replay"], sample={"unit": os.path.basename(ctx.replay)})
        ctx.nontrivial.add("replay-2")
        if crashed or hung:
            report_unit(ctx, ctx.run, exe, ctx.replay, out, "replay")
        else:
            print("replay: property holds for this input")
        ctx.finish()
    fb, fbn, ab, pb = ctx.run.build_many(["fuzz", "fuzz-nts", "ts-asan", "ts-plain"])
    ctx.assumptions = ["absence of findings is not a proof: coverage-guided search over inputs up to 8 KiB",
                       "the fuzz target runs as uid 65534 in a private mount namespace where every world-writable directory is an empty "
                       "tmpfs, so fuzzed output paths cannot touch the system; data sources whose input the harness cannot shape (utmp, "
                       "/etc/hosts) see the sandbox's values",
                       "allocation failure and invalid pointers are outside the domain"]
    if not ctx.replay:
        fuzz_phase(ctx, fb, fbn)
    nw, per = (4, 500) if ctx.quick else (16, 4000)
    pbt.run(ctx, {"ts-asan": ab, "ts-plain": pb}, strategy, evaluate, classify, nw, per)
    ctx.finish()


if __name__ == "__main__":
    main_wrapper(main)
