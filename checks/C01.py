#!/usr/bin/env python3-vt
"""C01 -- exec calls pass through unchanged, exactly once, after logging."""
import os
import sys

sys.path.insert(0, os.path.join(os.path.dirname(os.path.abspath(__file__)), "..", "lib"))
from hypothesis import strategies as st

import drv
import gen
import pbt
from common import Ctx, Failure, main_wrapper

PID = "C01"
RULE = ("Hypothesis-generated (config, exec kind, path, argv, envp/environ, scripted ret/errno | real exec); "
        "non-trivial = config is not the default/absent one AND (argv or envp shape is not a short plain vector "
        "OR the exec really succeeds); distinct by (config kind, has filter chain, argv class, envp class, errno, real)")

ERRNOS = list(range(0, 134))
RETS = [-1, 0, 1, -2147483648, 2147483647]


def strategy():
    @st.composite
    def case(draw):
        cfg = draw(gen.st_config('@OUT@'))
        kind = draw(st.sampled_from(["v", "e"]))
        real = draw(st.sampled_from([False] * 4 + [True]))
        big = not real
        argv = draw(gen.st_vector(big=big))
        envp = draw(gen.st_envp(big=big)) if kind == "e" else []
        environ = draw(st.one_of(st.just("keep"), gen.st_envp(big=False).filter(lambda v: v is not None or True)))
        path = drv.ARGDUMP.encode() if real else draw(gen.st_path(big=big))
        ret = draw(st.sampled_from(RETS))
        err = draw(st.sampled_from(ERRNOS))
        return {"cfg": cfg, "kind": kind, "real": real, "argv": argv, "envp": envp, "environ": environ,
                "path": path, "ret": ret, "err": err}
    return case()


def scenario(o, c):
    ops = [drv.op("x", o + "/log", o + "/log-x-0")]
    ops += gen.std_sinks(o)
    ops += gen.cfg_ops(c["cfg"], o)
    if c["environ"] != "keep":
        ops.append(drv.op_env(drv.vec_list(c["environ"])) if c["environ"] is not None else drv.op_env(None))
    ops.append(drv.op_exec(c["kind"], c["path"], c["argv"], c["envp"], ret=c["ret"], err=c["err"], real=c["real"]))
    ops += [drv.op("L"), drv.op("G")]
    return ops


def evaluate(d, c):
    """Raises Failure when the property is violated for case c."""
    res = d.scenario(scenario(d.out, c))
    reports = d.sanitizer_reports()
    obs = {"result": res.describe(), "errors": res.errors()}
    if res.timedout:
        raise Failure("call did not complete (timeout)", obs, key="hang")
    if res.signaled or (res.exitcode not in (0,)):
        obs["sanitizer"] = [r[:3000] for r in reports[:2]]
        raise Failure("process died inside the wrapped call", obs, key="crash")
    R = res.of("R")
    if len(R) != 1 or int(R[0].f[1]) != 1:
        raise Failure("real exec reached %d times (expected exactly once)" % len(R), obs, key="count")
    flags = int(R[0].f[2])
    need = {1: "same function kind", 4: "path content", 16: "argv content", 64: "envp/environ content",
            128: "caller memory intact at real-exec entry"}
    bad = [n for bit, n in need.items() if not flags & bit]
    if bad:
        obs["flags"] = flags
        raise Failure("real exec received altered arguments: " + ", ".join(bad), obs, key="args")
    at_entry = R[0].f[3]
    if c["real"]:
        A = res.of("A")
        if len(A) != 1:
            raise Failure("real exec did not start the target program", obs, key="real-missing")
        na, ne = int(A[0].f[0]), int(A[0].f[1])
        got_argv = A[0].f[2:2 + na]
        got_env = A[0].f[2 + na:2 + na + ne]
        want_argv = drv.vec_list(c["argv"]) or []
        if c["kind"] == "e":
            want_env = drv.vec_list(c["envp"]) or []
        else:
            want_env = None if c["environ"] == "keep" else (drv.vec_list(c["environ"]) or [])
        if got_argv != want_argv and not (want_argv == [] and got_argv == [b""]):
            raise Failure("target program received a different argv", {"got": got_argv, "want": want_argv}, key="real-argv")
        if want_env is not None and got_env != want_env:
            raise Failure("target program received a different environment", {"got": got_env, "want": want_env}, key="real-env")
        # anything arriving at a stream/datagram sink after the image was replaced was not handed over before the exec
        late = {e.f[0].decode(): len(e.f[1]) for e in res.of("L") if len(e.f[1])}
        if late:
            raise Failure("log data reached the sink only after the real exec started", {"late_bytes_by_fd": late}, key="late")
        return at_entry
    T = res.of("T")
    if len(T) != 1:
        raise Failure("wrapped call did not return to the caller", obs, key="noreturn")
    ret, err, intact = int(T[0].f[0]), int(T[0].f[1]), int(T[0].f[2])
    if ret != c["ret"] or err != c["err"]:
        raise Failure("caller saw ret/errno (%d,%d), real exec returned (%d,%d)" % (ret, err, c["ret"], c["err"]),
                      obs, key="ret")
    if not intact:
        raise Failure("caller's vectors/environment modified after return", obs, key="memory")
    after = T[0].f[4]
    G = res.of("G")
    final = None
    if G:
        dump = drv.parse_dump(G[-1])
        # compare sizes at entry with final (post-flush) sizes
        ent = drv.parse_sinkstate(at_entry)
        fin = {}
        for name, (typ, fd, content) in dump.items():
            if typ == 1:
                fin[name] = str(len(content))
            elif typ == 3:
                fin[name] = str(len(content))
            else:
                fin[name] = "absent" if content is None else str(len(content))
        ent2 = {k: v.split(":")[0] for k, v in ent.items()}
        if ent2 != fin:
            raise Failure("sink content changed after the real exec was entered (logging not finished before exec)",
                          {"at_real_exec_entry": ent2, "final": fin}, key="order")
    if after != at_entry:
        # state text includes hashes for files
        raise Failure("sink content changed between real-exec entry and return", {"entry": at_entry, "after": after}, key="order")
    return at_entry


def classify(c):
    cfg = c["cfg"]
    nondefault = cfg["kind"] not in ("absent", "empty", "default")
    haschain = any(k == b"filter_chain" for k, _ in cfg["opts"])
    ac, ec = gen.vec_class(c["argv"]), gen.vec_class(c["envp"])
    nontriv = nondefault and (ac != "plain" or ec not in ("plain", "empty") or c["real"])
    key = (cfg["kind"], haschain, ac, ec, c["err"], c["real"]) if nontriv else None
    return key, ["cfg:" + cfg["kind"], "argv:" + ac, "envp:" + ec, "real" if c["real"] else "scripted", "kind:" + c["kind"]]


def sample(c):
    d = dict(c)
    d["cfg"] = c["cfg"]["ini"]
    return d


def evaluate_env(env, c):
    return evaluate(env.driver("ts-asan"), c)


def main():
    ctx = Ctx(PID, "exploration", RULE)
    ctx.assumptions = ["librecorder.so stands in for libc's execv/execve (it is what RTLD_NEXT resolves to)",
                       "pointer identity of the forwarded vectors is not required, only deep equality and an untouched caller",
                       "real-success cases exec /verif/build/argdump with vectors small enough for the kernel (E2BIG excluded)"]
    b = ctx.run.build("ts-asan")
    nw, per = (4, 800) if ctx.quick else (16, 6500)
    pbt.run(ctx, {"ts-asan": b}, strategy, evaluate_env, classify, nw, per, sample=sample)
    ctx.finish()


if __name__ == "__main__":
    main_wrapper(main)
