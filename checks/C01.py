#!/usr/bin/env python3-vt
"""C01 -- exec calls pass through unchanged, exactly once, after logging."""
import os
import sys

sys.path.insert(0, os.path.join(os.path.dirname(os.path.abspath(__file__)), "..", "lib"))
from hypothesis import strategies as st

import drv
import gen
import pbt
from common import Ctx, Failure, main_wrapper

PID = "C01"
RULE = ("Hypothesis-generated (config incl. a format naming every data source, process environment incl. NULL and > limit, "
        "history of 1..3 execv/execve calls in one process each with path, argv, envp, scripted ret/errno | real exec; three histories in ten "
        "with a sink condition: file size limit inside the record (genuine short write), /dev/full, or no free descriptor during the call); "
        "non-trivial = config is not the default/absent one AND (argv or envp shape is not a short plain vector "
        "OR the exec really succeeds); distinct by (config kind, has filter chain, argv class, envp class, errno, real)")

ERRNOS = list(range(0, 134))
RETS = [-1, 0, 1, -2147483648, 2147483647]


ALL_DS_FORMAT = b"".join(b"%{" + n.encode() + (b":1" if n in ("cgroup",) else (b":HOME" if n == "env" else b"")) + b"}|"
                         for n in gen.ALL_SOURCES)


def strategy():
    @st.composite
    def call(draw, real_allowed):
        kind = draw(st.sampled_from(["v", "e"]))
        real = real_allowed and draw(st.sampled_from([False] * 4 + [True]))
        big = not real
        argv = draw(gen.st_vector(big=big))
        envp = draw(gen.st_envp(big=big)) if kind == "e" else []
        path = drv.ARGDUMP.encode() if real else draw(gen.st_path(big=big))
        ret = draw(st.sampled_from(RETS))
        err = draw(st.sampled_from(ERRNOS))
        return {"kind": kind, "real": real, "argv": argv, "envp": envp, "path": path, "ret": ret, "err": err}

    @st.composite
    def case(draw):
        cfg = draw(gen.st_config("@OUT@"))
        if cfg["kind"] not in ("absent", "dir", "empty", "garbage") and draw(st.sampled_from([False, False, True])):
            # every data source at once: whatever a data source does to caller-visible state shows up
            opts = [(k, v) for k, v in cfg["opts"] if k != b"message_format"] + [(b"message_format", ALL_DS_FORMAT)]
            cfg = dict(cfg, opts=opts, ini=gen.render_ini(opts), alldatasources=True)
        envkind = draw(st.sampled_from(["keep", "small", "small", "null", "huge"]))
        if envkind == "small":
            environ = draw(gen.st_envp(big=False))
        elif envkind == "huge":
            n = draw(st.sampled_from([300, 2100, 5000]))
            environ = [b"HOME=/root", b"BIG=" + b"b" * n] + [b"V%d=" % i + b"x" * 100 for i in range(draw(st.integers(0, 30)))]
        else:
            environ = None if envkind == "null" else "keep"
        ncalls = draw(st.sampled_from([1, 1, 2, 3]))
        calls = [draw(call(i == ncalls - 1)) for i in range(ncalls)]
        c = {"cfg": cfg, "environ": environ, "calls": calls, "pre_errno": draw(st.sampled_from([0, 0, 0, 34, 4, 11]))}
        # "regardless of whether anything was logged": the sink gives out in the middle of the record (a genuine short write), takes
        # nothing at all, or the program has no descriptor left for the library to open anything
        cond = draw(st.sampled_from([None] * 7 + ["shortwrite", "devfull", "nofile"]))
        if cond:
            c = with_condition(c, cond)
        return c
    return case()


def with_condition(c, cond):
    cfg = c["cfg"]
    if cond in ("shortwrite", "devfull"):
        dest = b"file:@OUT@/log" if cond == "shortwrite" else b"file:/dev/full"
        opts = [(k, v) for k, v in cfg["opts"] if k != b"output"] + [(b"output", dest)]
        cfg = dict(cfg, opts=opts, ini=gen.render_ini(opts), kind="file")
    calls = [dict(k, real=False) for k in c["calls"]]      # (a really started program would inherit the limits)
    return dict(c, cfg=cfg, calls=calls, condition=cond)


def scenario(o, c):
    ops = [drv.op("x", o + "/log", o + "/log-x-0")]
    ops += gen.std_sinks(o)
    ops += gen.cfg_ops(c["cfg"], o)
    if c["environ"] != "keep":
        ops.append(drv.op_env(drv.vec_list(c["environ"])) if c["environ"] is not None else drv.op_env(None))
    ops.append(drv.op("e", c.get("pre_errno", 0)))
    for k in c["calls"]:
        cond = c.get("condition")
        if cond == "shortwrite":
            ops.append(drv.op("l", 10 * (len(ops) % 3) + 1))      # file size limit inside the first record (SIGXFSZ ignored): write() comes back short
        elif cond == "nofile":
            ops.append(drv.op("R", 0))
        ops.append(drv.op_exec(k["kind"], k["path"], k["argv"], k["envp"], ret=k["ret"], err=k["err"], real=k["real"]))
        if cond == "shortwrite":
            ops.append(drv.op("l", 1 << 40))
        elif cond == "nofile":
            ops.append(drv.op("R", -1))
        ops += [drv.op("L"), drv.op("G")]
    return ops


def evaluate(d, c):
    """Raises Failure when the property is violated for case c (a short history of calls in one process)."""
    res = d.scenario(scenario(d.out, c))
    reports = d.sanitizer_reports()
    obs = {"result": res.describe(), "errors": res.errors()}
    if res.timedout:
        raise Failure("call did not complete (timeout)", obs, key="hang")
    if res.signaled or (res.exitcode not in (0,)):
        obs["sanitizer"] = [r[:3000] for r in reports[:2]]
        raise Failure("process died inside the wrapped call", obs, key="crash")
    Rs, Ts, Gs = res.of("R"), res.of("T"), res.of("G")
    if len(Rs) != len(c["calls"]):
        raise Failure("real exec reached %d times for %d calls" % (len(Rs), len(c["calls"])), obs, key="count")
    for i, k in enumerate(c["calls"]):
        R = Rs[i]
        obs["call"] = i
        if int(R.f[1]) != 1:
            raise Failure("real exec reached %s times for one call" % R.f[1].decode(), obs, key="count")
        flags = int(R.f[2])
        need = {1: "same function kind", 4: "path content", 16: "argv content", 64: "envp/environ content",
                128: "caller memory intact at real-exec entry"}
        bad = [n for bit, n in need.items() if not flags & bit]
        if bad:
            obs["flags"] = flags
            raise Failure("real exec received altered arguments: " + ", ".join(bad), obs, key="args")
        at_entry = R.f[3]
        if k["real"]:
            A = res.of("A")
            if len(A) != 1:
                raise Failure("real exec did not start the target program", obs, key="real-missing")
            na, ne = int(A[0].f[0]), int(A[0].f[1])
            got_argv = A[0].f[2:2 + na]
            got_env = A[0].f[2 + na:2 + na + ne]
            want_argv = drv.vec_list(k["argv"]) or []
            if k["kind"] == "e":
                want_env = drv.vec_list(k["envp"]) or []
            else:
                want_env = None if c["environ"] == "keep" else (drv.vec_list(c["environ"]) or [])
            if got_argv != want_argv and not (want_argv == [] and got_argv == [b""]):
                raise Failure("target program received a different argv", {"got": got_argv, "want": want_argv}, key="real-argv")
            if want_env is not None and got_env != want_env:
                raise Failure("target program received a different environment",
                              {"got": [e[:80] for e in got_env[:20]], "want": [e[:80] for e in want_env[:20]]}, key="real-env")
            late = {e.f[0].decode(): len(e.f[1]) for e in res.of("L") if len(e.f[1])}
            if late:
                raise Failure("log data reached the sink only after the real exec started", {"late_bytes_by_fd": late}, key="late")
            continue
        if i >= len(Ts):
            raise Failure("wrapped call did not return to the caller", obs, key="noreturn")
        T = Ts[i]
        ret, err, intact = int(T.f[0]), int(T.f[1]), int(T.f[2])
        if ret != k["ret"] or err != k["err"]:
            raise Failure("caller saw ret/errno (%d,%d), real exec returned (%d,%d)" % (ret, err, k["ret"], k["err"]),
                          obs, key="ret")
        if not intact:
            raise Failure("caller's vectors/environment modified after return", obs, key="memory")
        after = T.f[4]
        if after != at_entry:
            raise Failure("sink content changed between real-exec entry and return", {"entry": at_entry, "after": after}, key="order")
        # the dump right after this call (stdio flushed): nothing may have been held back
        dump = drv.parse_dump(Gs[i])
        ent = {n: v.split(":")[0] for n, v in drv.parse_sinkstate(at_entry).items()}
        fin = {}
        for name, (typ, fd, content) in dump.items():
            fin[name] = "absent" if content is None else str(len(content))
        if ent != fin:
            raise Failure("sink content changed after the real exec was entered (logging not finished before exec)",
                          {"at_real_exec_entry": ent, "after_flush": fin}, key="order")


def classify(c):
    cfg = c["cfg"]
    nondefault = cfg["kind"] not in ("absent", "empty", "default")
    haschain = any(k == b"filter_chain" for k, _ in cfg["opts"])
    shapes = []
    anyreal = False
    nontriv_shape = False
    for k in c["calls"]:
        ac, ec = gen.vec_class(k["argv"]), gen.vec_class(k["envp"])
        shapes.append((k["kind"], ac, ec, k["real"]))
        anyreal |= k["real"]
        nontriv_shape |= ac != "plain" or ec not in ("plain", "empty") or k["real"]
    envk = "keep" if c["environ"] == "keep" else ("null" if c["environ"] is None else
                                                  ("huge" if sum(len(e) for e in c["environ"]) > 255 else "small"))
    nontriv = nondefault and (nontriv_shape or len(c["calls"]) > 1)
    key = (cfg["kind"], haschain, tuple(shapes), envk, c["calls"][-1]["err"]) if nontriv else None
    cls = ["cfg:" + cfg["kind"], "calls:%d" % len(c["calls"]), "environ:" + envk, "real" if anyreal else "scripted"]
    cls += ["argv:" + sh[1] for sh in shapes[:1]] + ["envp:" + sh[2] for sh in shapes[:1]]
    if c.get("condition"):
        cls.append("sink-condition:" + c["condition"])
        if key is not None:
            key = key + (c["condition"],)
    if cfg.get("alldatasources"):
        cls.append("format:all-data-sources")
    if len({sh[0] for sh in shapes}) > 1:
        cls.append("execv+execve-mixed")
    return key, cls


def sample(c):
    d = dict(c)
    d["cfg"] = c["cfg"]["ini"]
    if isinstance(c["environ"], list):
        d["environ"] = [e[:60] for e in c["environ"][:12]]
    return d


def evaluate_env(env, c):
    return evaluate(env.driver(c.get("variant", "ts-asan")), c)


def _cfg(opts, kind="fixed"):
    return {"kind": kind, "ini": gen.render_ini(opts), "opts": opts}


def _call(kind, path=b"/bin/x", argv=(b"x",), envp=(b"E=1",), ret=-1, err=2, real=False):
    return {"kind": kind, "real": real, "argv": list(argv) if argv is not None else None, "envp": list(envp) if envp is not None else None,
            "path": drv.ARGDUMP.encode() if real else path, "ret": ret, "err": err}


FIXED = [
    {"cfg": _cfg([(b"output", b"stdout")], "stdout"), "environ": "keep", "calls": [_call("e", real=True)]},             # record stuck in the stdio buffer
    {"cfg": _cfg([(b"output", b"stdout")], "stdout"), "environ": "keep", "calls": [_call("v", ret=0, err=0)]},
    {"cfg": _cfg([], "default"), "environ": [b"ONLY=1"], "calls": [_call("v"), _call("e", envp=(b"A=b",)), _call("v")]},   # execv / execve alternation
    {"cfg": _cfg([(b"message_format", b"%{env_all}"), (b"output", b"devnull")], "devnull"), "environ": [b"BIG=" + b"b" * 4000, b"Z=1"],
     "calls": [_call("v", real=True)]},                                                                                 # env_all must not touch the environment
    {"cfg": _cfg([(b"output", b"file:@OUT@/log"), (b"output", b"devnull")], "file"), "environ": "keep", "calls": [_call("e"), _call("e")]},
    {"cfg": _cfg([(b"output", b"file:@OUT@/log")], "file"), "environ": "keep", "calls": [_call("e"), _call("v", ret=0, err=0), _call("e", err=13)], "condition": "shortwrite"},
    {"cfg": _cfg([(b"output", b"file:/dev/full"), (b"error_logging", b"yes")], "file"), "environ": "keep", "calls": [_call("e", err=28), _call("v", err=0)], "condition": "devfull"},
    {"cfg": _cfg([(b"output", b"file:@OUT@/log")], "file"), "environ": "keep", "calls": [_call("e", err=24), _call("v"), _call("e", ret=0, err=0)], "condition": "nofile"},
    {"cfg": _cfg([(b"filter_chain", b"only_uid:4242")], "default"), "environ": None, "calls": [_call("e", argv=None, envp=None, ret=2147483647, err=133)]},
]


def main():
    ctx = Ctx(PID, "exploration", RULE)
    ctx.assumptions = ["librecorder.so stands in for libc's execv/execve (it is what RTLD_NEXT resolves to)",
                       "pointer identity of the forwarded vectors is not required, only deep equality and an untouched caller",
                       "real-success cases exec /verif/build/argdump with vectors small enough for the kernel (E2BIG excluded)"]
    b, bn = ctx.run.build_many(["ts-asan", "nts-asan"])
    nw, per = (4, 800) if ctx.quick else (16, 6500)
    pbt.run(ctx, {"ts-asan": b, "nts-asan": bn}, strategy, evaluate_env, classify, nw, per, sample=sample, fixed_cases=FIXED,
            variants=["ts-asan", "ts-asan", "nts-asan"])
    ctx.finish()


if __name__ == "__main__":
    main_wrapper(main)
