#!/usr/bin/env python3-vt
"""C18 -- snoopyctl enable adds exactly one entry and preserves the file."""
import os
import sys

sys.path.insert(0, os.path.join(os.path.dirname(os.path.abspath(__file__)), "..", "lib"))

import model
import pbt
import preload
from common import Ctx, Counters, Failure, main_wrapper, run_workers

PID = "C18"
ACTION = "enable"
RULE = ("(a) exhaustive: file absent, empty, and every file of up to 3 (quick) / 4 (thorough) lines over a fixed 14-line alphabet "
        "(own entry plain / with blank / with comment, comments mentioning the library once and twice, foreign entry, another "
        "libsnoopy.so instance, blank, path with the library path as prefix / as suffix, shared line, CR-LF) x final newline "
        "yes/no; (b) Hypothesis line grammar with generated foreign paths, comments mentioning the library 0..3 times, "
        "indented lines, trailing blanks/tabs/comments. Each state: real `snoopyctl enable`, compared with the model of the "
        "property text (bytes + exit status; the command is also started with stdin/stdout/stderr closed in several combinations), then `enable` again (idempotence), then `status`. non-trivial = content with a "
        "comment mentioning the library, a near-miss path, an own entry with trailing text, CR-LF or a missing final "
        "newline; distinct by content")


CLOSED = [[], [], [], [], [1], [2], [1, 2], [0, 1, 2], [0]]
FSTATES = [None, None, None, "symlink", "oldmtime"]


def evaluate_content(ctl, content, closed=(), fstate=None):
    P = ctl.P
    old = ctl.subst(content)
    # the file may be a symbolic link with a relative target (commands run from another directory) or last changed days ago
    ctl.put(old, symlink=(fstate == "symlink"), old_mtime=(fstate == "oldmtime"))
    old_eff = old or b""
    # the command may be started without some of its standard descriptors (`snoopyctl ... >&-`): the file must come out the same
    rc, out, err = ctl.run(ACTION, closed=closed)
    if rc < 0 or rc in (134, 139):
        raise Failure("snoopyctl enable crashed", {"status": rc, "stderr": err[-1500:]}, key="crash")
    new = ctl.get()
    new_eff = new or b""
    exp, code = model.enable_model(old_eff, P)
    obs = {"old": old, "new": new, "exit": rc}
    if new_eff != exp:
        raise Failure("file content after `enable` differs from the documented result", obs, {"new": exp, "exit": code}, key="content")
    if (code == "zero") != (rc == 0):
        raise Failure("exit status of `enable` differs from the documented one", obs, {"exit": code}, key="exit")
    if ctl.stray_files():
        raise Failure("`enable` left temporary files next to ld.so.preload", {"files": ctl.stray_files()}, key="stray")
    rc2, out2, err2 = ctl.run(ACTION)
    new2 = ctl.get()
    if new2 != new or (rc == 0) != (rc2 == 0):
        raise Failure("enabling twice is not the same as enabling once", {"after_first": new, "after_second": new2, "exit1": rc, "exit2": rc2},
                      key="idempotence")
    if rc == 0 and len(model.active_lines(new_eff)) == 1:
        rc3, out3, err3 = ctl.run("status")
        line = [l for l in out3.split(b"\n") if l.startswith(b"/etc/ld.so.preload:")]
        ok = bool(line) and b"OK - Snoopy is enabled" in line[0] and b"NOT OK" not in line[0]
        if not ok:
            raise Failure("`status` does not report the entry as present after a successful `enable`",
                          {"file": new, "status_output": out3[:600], "exit": rc3}, key="status")


def evaluate(env, c):
    if not hasattr(env, "ctl"):
        env.ctl = preload.Ctl(next(iter(env.builds.values())), os.path.join(env.run.dir, "ctl-%d" % os.getpid()))
    evaluate_content(env.ctl, c["content"], tuple(c.get("closed", ())), c.get("fstate"))


def classify(c):
    ct = c["content"]
    if ct is None:
        return None, ["absent"] + (["started-without-fd:" + ",".join(map(str, c["closed"]))] if c.get("closed") else [])
    lines = ct.split(b"\n")
    comment_mention = any(l.startswith(b"#") and (b"libsnoopy.so" in l or preload.PH in l) for l in lines)
    near = any((preload.PH + b"x") in l or (b"/pre" + preload.PH) in l or (preload.PH + b".1") in l or (preload.PH + b"~") in l or (b"x" + preload.PH) in l for l in lines)
    trailing = any(l.startswith(preload.PH) and len(l) > len(preload.PH) for l in lines)
    crlf = b"\r" in ct
    nonl = bool(ct) and not ct.endswith(b"\n")
    nontriv = comment_mention or near or trailing or crlf or nonl
    cls = ["lines:%d" % min(len(lines), 9)]
    for f, n in ((comment_mention, "comment-mentions-library"), (near, "near-miss-path"), (trailing, "own-entry-with-trailing-text"),
                 (crlf, "crlf"), (nonl, "no-final-newline"), (preload.PH in ct, "own-path-present")):
        if f:
            cls.append(n)
    if c.get("closed"):
        cls.append("started-without-fd:" + ",".join(map(str, c["closed"])))
    if c.get("fstate"):
        cls.append("file:" + c["fstate"])
    return ((ct, tuple(c.get("closed", ()))) if nontriv else None), cls


_EX = {}


def exhaustive_worker(args):
    idx, nshards, maxlines = args
    ctx = _EX["ctx"]
    ctl = preload.Ctl(_EX["build"], os.path.join(ctx.run.dir, "ctl-ex-%d" % idx))
    local = Counters(ctx.known, idx)
    fails = []
    for n, content in enumerate(preload.exhaustive_contents(maxlines)):
        if n % nshards != idx:
            continue
        c = {"content": content, "closed": CLOSED[n % len(CLOSED)], "fstate": FSTATES[(n // 3) % len(FSTATES)]}
        key, cls = classify(c)
        local.count(key, ["exhaustive"] + cls, sample=c)
        try:
            _EX["eval"](ctl, content, tuple(c["closed"]), c["fstate"])
        except Failure as f:
            if local.is_known(f.key):
                local.known_hit(f.key, f.what)
            elif not fails:
                fails.append({"case": c, "what": "[exhaustive] " + f.what, "observed": f.observed, "expected": f.expected})
    return local.export(), fails


def strategy():
    from hypothesis import strategies as st
    return st.builds(lambda b, cl, fs: {"content": b, "closed": cl, "fstate": fs}, preload.st_content(), st.sampled_from(CLOSED), st.sampled_from(FSTATES))


def main(pid=PID, rule=RULE, eval_content=None):
    ctx = Ctx(pid, "exploration", rule)
    b = ctx.run.build("ts-plain")
    ctx.assumptions = ["the snoopyctl under test is the one built from the working tree, driven through SNOOPY_TEST_LD_SO_PRELOAD_PATH / "
                       "SNOOPY_TEST_LIBSNOOPY_SO_PATH", "a line is a comment iff its first character is '#'",
                       "`status` is only required to report 'enabled' when exactly one active line mentions the library"]
    if not ctx.replay:
        _EX.update({"ctx": ctx, "build": b, "eval": eval_content or evaluate_content})
        maxlines = 3 if ctx.quick else 4
        nsh = 8 if ctx.quick else 16
        for out, fails in run_workers(exhaustive_worker, nsh, [(i, nsh, maxlines) for i in range(nsh)]):
            ctx.merge(out)
            for f in fails[:1]:
                if not ctx.violations:
                    ctx.violation(f["case"], f["observed"], f["expected"], f["what"])
        ctx.extra["exhaustive_up_to_lines"] = maxlines
        ctx.extra["exhaustive_states"] = ctx.evaluations
    nw, per = (4, 500) if ctx.quick else (16, 2500)
    pbt.run(ctx, {"ts-plain": b}, strategy, _EX.get("evalenv") or evaluate, classify, nw, per)
    ctx.finish()


if __name__ == "__main__":
    main_wrapper(main)
