#!/usr/bin/env python3-vt
"""C03 -- logging failures never block, signal or abort the exec."""
import os
import random
import sys
import time

sys.path.insert(0, os.path.join(os.path.dirname(os.path.abspath(__file__)), "..", "lib"))

import drv
import gen
import trace
from common import Ctx, Counters, Failure, main_wrapper, run_workers, load_replay

PID = "C03"
RULE = ("per configuration (caller environment inherited / empty / with odd entries x every output type x formats that together use every data source x chains incl. exclude_spawns_of x real "
        "sink states: directory absent, no permission as non-root, /dev/full (ENOSPC), unread datagram socket with a full queue, stream listener whose daemon does not accept (backlog full), controlling terminal with the caller as foreground and as background job): a "
        "traced dry run lists the I/O system calls issued between wrapper entry and the recording real-exec; then EVERY such call is "
        "failed once with each plausible errno for that call (all single faults; every errno also persistently from that call on, except EINTR), short transfers (write/send returning 1 or 10, read returning 0 or 1), EAGAIN (and "
        "EINTR on write/send/connect) also persistently (from that call on), and pairs of faults on different calls are sampled; a second pass repeats the interrupted (EINTR/EAGAIN) and short transfers on the AddressSanitizer build (a retry resuming from the wrong offset). Oracle: the real exec is reached exactly once with intact "
        "arguments, its (-1, EACCES) comes back, exit status 0, no signal delivered inside the window, completion within 10 s (a run "
        "over the bound is repeated three times). non-trivial = the injected fault was hit inside the window (the syscall stream "
        "after it differs from the dry run or the call is the targeted one); distinct by (config, syscall, ordinal, errno, mode)")

ERRS = {
    "openat": ["ENOENT", "EACCES", "EMFILE", "ENFILE", "EIO", "EINTR", "ENOSPC", "EROFS"], "open": ["ENOENT", "EACCES", "EMFILE", "EIO"],
    "read": ["EIO", "EINTR", "EAGAIN", "EBADF"], "pread64": ["EIO", "EINTR"], "write": ["EIO", "ENOSPC", "EDQUOT", "EPIPE", "EAGAIN", "EINTR", "EBADF"],
    "writev": ["EIO", "ENOSPC", "EPIPE", "EAGAIN"], "close": ["EIO", "EINTR"],      # (not EBADF: the kernel says that only for a descriptor that is not open; third-party NSS modules abort on it by design)
    "stat": ["ENOENT", "EACCES", "EIO"], "fstat": ["EIO", "EBADF"], "newfstatat": ["ENOENT", "EACCES", "EIO"], "statx": ["ENOENT", "EACCES", "EIO"],
    "lstat": ["ENOENT", "EACCES"], "lseek": ["ESPIPE", "EINVAL"], "socket": ["EMFILE", "ENFILE", "EAFNOSUPPORT", "ENOBUFS", "EACCES"],
    "connect": ["ECONNREFUSED", "ENOENT", "EACCES", "EAGAIN", "EINTR", "EPROTOTYPE"],
    "sendto": ["EAGAIN", "ECONNREFUSED", "ENOTCONN", "EPIPE", "ENOBUFS", "EMSGSIZE", "EINTR"], "sendmsg": ["EAGAIN", "EPIPE", "ENOBUFS"],
    "ioctl": ["ENOTTY", "EIO", "EBADF"], "readlink": ["ENOENT", "EACCES", "EINVAL"], "readlinkat": ["ENOENT", "EACCES", "EINVAL"],
    "getcwd": ["ERANGE", "ENOENT", "EACCES"], "getdents64": ["EIO", "ENOENT"], "access": ["ENOENT", "EACCES"], "faccessat": ["ENOENT", "EACCES"],
    "faccessat2": ["ENOENT", "EACCES"], "fcntl": ["EBADF", "EINVAL"], "uname": ["EFAULT"], "sysinfo": ["EFAULT"], "getsockopt": ["EBADF"],
    "setsockopt": ["EBADF", "ENOPROTOOPT"], "recvfrom": ["EAGAIN", "EIO"], "recvmsg": ["EAGAIN"], "poll": ["EINTR"], "getpeername": ["ENOTCONN"],
    "getsockname": ["EBADF"], "bind": ["EADDRINUSE"], "pipe2": ["EMFILE"], "dup": ["EMFILE"], "dup2": ["EMFILE"], "flock": ["EWOULDBLOCK"],
}
# persistent faults (from that call on): EAGAIN wherever it is listed (a full queue stays full); EINTR only on the calls the
# outputs issue directly -- libc itself retries read() on EINTR (getlogin_r's TEMP_FAILURE_RETRY), an endless EINTR is not a
# plausible kernel behaviour there
# short transfers: the call "succeeds" with fewer bytes than asked for (retval injection; the call itself is skipped)
SHORT = {"write": [1, 10], "sendto": [1], "read": [0, 1], "writev": [1]}
PERSISTENT = {"EAGAIN"}
PERSISTENT_EINTR_CALLS = {"write", "sendto", "sendmsg", "connect"}
ALL_DS = b"".join(b"%{" + n.encode() + (b":1" if n == "cgroup" else (b":HOME" if n == "env" else b"")) + b"}|" for n in gen.ALL_SOURCES)


def configs(out, quick, rng):
    o = out.encode()
    outs = [("file", b"file:" + o + b"/log", []), ("filetpl", b"file:" + o + b"/log-%{uid}-%{datetime:%Y}", []),
            ("devlog", b"devlog", ["devlog"]), ("socket", b"socket:" + o + b"/sock", ["sock"]), ("stdout", b"stdout", []),
            ("stderr", b"stderr", []), ("devtty", b"devtty", []), ("devnull", b"devnull", []),
            # sink states built for real
            ("file-absent-dir", b"file:" + o + b"/nodir/log", []), ("file-devfull", b"file:/dev/full", []),
            ("file-noperm", b"file:" + o + b"/noperm.log", ["noperm"]), ("socket-absent", b"socket:" + o + b"/nosock", []),
            ("socket-fullqueue", b"socket:" + o + b"/sock", ["sock", "fill"]), ("devlog-fullqueue", b"devlog", ["devlog", "fill"]),
            ("devlog-absent", b"devlog", []), ("file-relative", b"file:relative.log", []),
            # the log socket is a STREAM listener (syslog-ng's unix-stream("/dev/log")) whose daemon is not accepting, backlog full
            # another process holds an advisory lock on the log file and does not let go (a log shipper or rotation job under flock(1))
            ("file-locked-by-another-process", b"file:" + o + b"/locked.log", ["locked"]),
            ("devlog-stream-listener-stalled", b"devlog", ["devlog", "stream"]), ("socket-stream-listener-stalled", b"socket:" + o + b"/sock", ["sock", "stream"]),
            # the caller has a controlling terminal: as the foreground job, and as a background job (`cmd &`), where terminal
            # operations other than a plain write stop the process with SIGTTOU
            ("devtty-foreground", b"devtty", ["ctty"]), ("devtty-background-job", b"devtty", ["ctty", "bg"])]
    fmts = [("all-ds", ALL_DS), ("default", None), ("ident", b"%{login} %{tty_username} %{rpname} %{cgroup:memory} %{cwd} %{env_all}")]
    chains = [None, b"exclude_spawns_of:nosuch,zz;only_uid:0", b"only_tty;exclude_uid:7"]
    allc = []
    for oname, oval, state in outs:
        for fname, f in fmts:
            for ch in chains:
                # the caller's environment: as inherited, empty (no PWD, HOME, LOGNAME ... at all), or with odd entries
                em = ["inherit", "empty", "odd"][len(allc) % 3]
                allc.append({"name": "%s/%s/%s/env-%s" % (oname, fname, "chain" if ch else "nochain", em), "output": oval, "format": f, "chain": ch,
                             "state": state, "oname": oname, "envmode": em})
    rng.shuffle(allc)
    # every output at least once in the quick tier, everything in thorough
    if quick:
        # (never with the chain that may drop the call: a dropped call makes no use of its output, the sink state would be vacuous)
        seen, sel = set(), []
        for c in allc:
            if c["oname"] not in seen and c["chain"] != chains[2]:
                seen.add(c["oname"])
                sel.append(c)
        return sel
    return allc


def scenario_ops(cfg, out):
    opts = [(b"output", cfg["output"])]
    if cfg["format"] is not None:
        opts.append((b"message_format", cfg["format"]))
    if cfg["chain"]:
        opts.append((b"filter_chain", cfg["chain"]))
    opts.append((b"syslog_ident", b"id-%{username}"))
    ops = [drv.op("x", out + "/log", out + "/noperm.log"), drv.op("S", 1, "pipe"), drv.op("S", 2, "pipe")]
    st = cfg["state"]
    if "devlog" in st:
        ops.append(drv.op("K", "devlog", out + "/devlog.sock", 1, 0, 2304, "stream" if "stream" in st else ""))
    else:
        ops.append(drv.op("K", "dl-unused", out + "/devlog-unused.sock", 0))
    if "sock" in st:
        ops.append(drv.op("K", "sock", out + "/sock", 0, 0, 2304, "stream" if "stream" in st else ""))
    if "fill" in st:
        ops.append(drv.op("p", out + ("/devlog.sock" if "devlog" in st else "/sock")))
    ops.append(drv.op("C", gen.render_ini(opts)))
    if "noperm" in st:
        # file owned by root, mode 0600; the call runs as uid 1000
        ops += [drv.op("S", 9, "file", out + "/noperm.log"), drv.op("U", -1, -1, -1, 1000, 1000, 1000)]
    if cfg.get("envmode") == "empty":
        ops.append(drv.op_env([]))
    elif cfg.get("envmode") == "odd":
        ops.append(drv.op_env([b"PWD=", b"HOME", b"=x", b"LOGNAME=", b"PWD=relative/path", b"SUDO_USER=" + b"s" * 300]))
    if "ctty" in st:
        ops += [drv.op("f"), drv.op("T")] + ([drv.op("b")] if "bg" in st else [])
    ops.append(drv.op_exec("e", b"/bin/prog", [b"prog", b"a"], [b"E=1"], ret=-1, err=13))
    return ops


def judge(rc, events, signals, what):
    if rc is None:
        raise Failure("call did not complete within the bound (%s)" % what, None, key="hang")
    R = [e for e in events if e.code == "R"]
    T = [e for e in events if e.code == "T"]
    stopped = [e.f[0].decode("latin-1") for e in events if e.code == "E" and b"stopped by signal" in e.f[0]]
    if stopped:
        raise Failure("the caller was stopped by a signal because of logging: %s (%s)" % (stopped[0], what), None, key="signal")
    sig_in_window = [s for ph, s in signals if ph in (1, 2)]
    if sig_in_window:
        raise Failure("signal delivered to the caller inside the wrapped call (%s)" % what, {"signals": sig_in_window[:3]}, key="signal")
    if rc != 0:
        raise Failure("process aborted / killed inside the wrapped call (%s), strace exit %s" % (what, rc),
                      {"signals": [s for _, s in signals][:3]}, key="abort")
    if len(R) != 1 or len(T) != 1:
        raise Failure("real exec reached %d times, call returned %d times (%s)" % (len(R), len(T), what), None, key="noexec")
    if int(R[0].f[2]) & 0xD5 != 0xD5:
        raise Failure("real exec received altered arguments (%s)" % what, {"flags": int(R[0].f[2])}, key="args")
    if int(T[0].f[0]) != -1 or int(T[0].f[1]) != 13:
        raise Failure("result of the real exec not delivered unchanged: (%s,%s) (%s)" % (T[0].f[0].decode(), T[0].f[1].decode(), what), None, key="ret")


def run_plan(os_, plan, dry_calls):
    args = []
    for name, ordinal, err, persistent in plan:
        spec = err if err.startswith("retval=") else "error=" + err
        args += ["-e", "inject=%s:%s:when=%d%s" % (name, spec, ordinal, "+" if persistent else "")]
    what = " + ".join("%s#%d=%s%s" % (n, o, e, "+" if p else "") for n, o, e, p in plan)
    for attempt in range(3):
        t0 = time.time()
        rc, events = os_.run_traced(args, timeout=10)
        if rc is None and attempt < 2:
            continue        # over the bound: repeat; only a consistent hang is a violation
        calls, signals = os_.parse_log()
        judge(rc, events, signals, what)
        hit = any((("= -1 " + p[2]) in c["text"] or "(INJECTED)" in c["text"]) and c["name"] == p[0] and c["ordinal"] == p[1] for c in calls for p in plan)
        return hit
    return False


_W = {}


def worker(args):
    idx, cfgs = args
    ctx = _W["ctx"]
    local = Counters(ctx.known, idx)
    os_ = trace.OneShot(ctx.run, _W["build"], "w%d" % idx)
    rng = random.Random(ctx.seed * 131 + idx)
    fails = []
    held = []
    for cfg in cfgs:
        if "locked" in cfg["state"] and not held:
            import fcntl
            lf = open(os_.out + "/locked.log", "ab")
            fcntl.flock(lf, fcntl.LOCK_EX)
            held.append(lf)             # kept until this worker ends
        ops = scenario_ops(cfg, os_.out)
        os_.write_scenario(ops)
        rc, events = os_.run_traced([], timeout=20)
        calls, signals = os_.parse_log()
        try:
            judge(rc, events, signals, "no fault injected, sink state as configured")
            local.count(("state", cfg["name"]), ["config:" + cfg["oname"], "no-injection"], sample={"config": cfg["name"], "fault": None})
        except Failure as f:
            if not fails:
                fails.append({"case": {"cfg": cfg, "plan": []}, "what": "[%s] %s" % (cfg["name"], f.what), "observed": f.observed, "expected": None})
            continue
        window = [c for c in calls if c["phase"] == 1 and c["name"] in ERRS]
        local.extra["io_calls_in_window_total"] = local.extra.get("io_calls_in_window_total", 0) + len(window)
        plans = []
        for c in window:
            for e in ERRS[c["name"]]:
                plans.append([(c["name"], c["ordinal"], e, False)])
                # a missing file stays missing, a full disk stays full: every errno may persist; only an endless EINTR is implausible
                # (libc itself retries read() on EINTR), so that one persists only on the calls the outputs issue directly
                if e != "EINTR" or c["name"] in PERSISTENT_EINTR_CALLS:
                    plans.append([(c["name"], c["ordinal"], e, True)])
            for rv in SHORT.get(c["name"], []):
                plans.append([(c["name"], c["ordinal"], "retval=%d" % rv, False)])
        npairs = 6 if ctx.quick else 40
        for _ in range(npairs):
            if len(window) < 2:
                break
            a, b = rng.sample(window, 2)
            if a["name"] == b["name"]:
                continue
            plans.append([(a["name"], a["ordinal"], rng.choice(ERRS[a["name"]]), False), (b["name"], b["ordinal"], rng.choice(ERRS[b["name"]]), False)])
        if ctx.quick and len(plans) > 220:
            # quick tier: all calls, a rotating subset of errnos
            keep = [p for i, p in enumerate(plans) if (i + idx) % max(1, len(plans) // 220) == 0]
            plans = keep
        for plan in plans:
            case = {"cfg": cfg, "plan": plan}
            try:
                hit = run_plan(os_, plan, calls)
                mode = "pair" if len(plan) > 1 else ("persistent" if plan[0][3] else ("short-transfer" if plan[0][2].startswith("retval") else "single"))
                local.count((cfg["name"],) + tuple(plan[0]) + (len(plan),) if hit else None,
                            ["config:" + cfg["oname"], "fault:" + mode, "syscall:" + plan[0][0], "errno:" + plan[0][2]] + (["hit"] if hit else ["not-reached"]),
                            sample={"config": cfg["name"], "fault": [list(p) for p in plan]})
            except Failure as f:
                if local.is_known(f.key):
                    local.known_hit(f.key, f.what)
                elif not fails:
                    fails.append({"case": case, "what": "[%s] %s" % (cfg["name"], f.what), "observed": f.observed, "expected": None})
    # second pass, memory-checked build: interrupted and short transfers are where retry loops live -- a retry that resumes from the
    # wrong offset reads or writes outside its buffer without failing the call
    os_a = trace.OneShot(ctx.run, _W["build_asan"], "a%d" % idx)
    for cfg in cfgs[idx % 2::2] if ctx.quick else cfgs:
        cfg_a = dict(cfg)
        os_a.write_scenario(scenario_ops(cfg_a, os_.out))
        rc, events = os_a.run_traced([], timeout=30)
        calls, signals = os_a.parse_log()
        try:
            judge(rc, events, signals, "memory-checked build, no fault injected")
        except Failure as f:
            if not fails:
                fails.append({"case": {"cfg": cfg, "plan": [], "asan": True}, "what": "[%s, memory-checked build] %s" % (cfg["name"], f.what), "observed": f.observed, "expected": None})
            continue
        window = [c for c in calls if c["phase"] == 1 and c["name"] in ERRS]
        plans = []
        for c in window:
            for e in ("EINTR", "EAGAIN"):
                if e in ERRS[c["name"]]:
                    plans.append([(c["name"], c["ordinal"], e, False)])
            for rv in SHORT.get(c["name"], []):
                plans.append([(c["name"], c["ordinal"], "retval=%d" % rv, False)])
        for plan in plans:
            case = {"cfg": cfg, "plan": plan, "asan": True}
            try:
                hit = run_plan(os_a, plan, calls)
                local.count(("asan", cfg["name"]) + tuple(plan[0]) if hit else None,
                            ["config:" + cfg["oname"], "memory-checked-pass", "syscall:" + plan[0][0], "errno:" + plan[0][2]] + (["hit"] if hit else ["not-reached"]),
                            sample={"config": cfg["name"], "build": "ts-asan", "fault": [list(p) for p in plan]})
            except Failure as f:
                if local.is_known(f.key):
                    local.known_hit(f.key, f.what)
                elif not any(x["case"].get("asan") for x in fails):
                    fails.append({"case": case, "what": "[%s, memory-checked build] %s" % (cfg["name"], f.what), "observed": f.observed, "expected": None})
    return local.export(), fails


def main():
    ctx = Ctx(PID, "fault_enumeration", RULE)
    bl = ctx.run.build_many(["ts-plain", "ts-asan"])
    b, b_asan = bl[0], bl[1]
    ctx.assumptions = ["allocation failure and faults that are not expressible as a failing system call are outside the domain",
                       "strace's injection replaces the call (not executed); `when` ordinals come from a dry run of the same scenario",
                       "stdout/stderr outputs writing into a pipe whose reader is gone (SIGPIPE from the kernel) are not among the listed sink states",
                       "memory-management calls (brk, mmap, munmap, mprotect) are never failed"]
    if ctx.replay:
        case, _ = load_replay(ctx.replay)
        os_ = trace.OneShot(ctx.run, b_asan if case.get("asan") else b, "replay")
        os_.write_scenario(scenario_ops(case["cfg"], os_.out))
        ctx.count("replay-1", ["replay"], sample={"config": case["cfg"]["name"], "fault": case["plan"]})
        ctx.nontrivial.add("replay-2")
        try:
            if case["plan"]:
                run_plan(os_, [tuple(p) for p in case["plan"]], [])
            else:
                rc, events = os_.run_traced([], timeout=20)
                calls, signals = os_.parse_log()
                judge(rc, events, signals, "no fault injected")
            print("replay: property holds for this case")
        except Failure as f:
            ctx.violation(case, f.observed, f.expected, f.what)
        ctx.finish()
    rng = random.Random(ctx.seed)
    tmp_out = os.path.join(ctx.run.dir, "os-w0", "out")
    nw = 16
    _W.update({"ctx": ctx, "build": b, "build_asan": b_asan})
    # configs refer to the worker's private out dir: build them inside the worker shards
    shards = []
    for i in range(nw):
        cf = configs(os.path.join(ctx.run.dir, "os-w%d" % i, "out"), ctx.quick, random.Random(ctx.seed))
        shards.append((i, cf[i::nw]))
    for out, fails in run_workers(worker, nw, shards):
        ctx.merge(out)
        for f in fails[:1]:
            if len(ctx.violations) < 4:
                ctx.violation(f["case"], f["observed"], f["expected"], f["what"])
    ctx.extra["exhaustive"] = True
    ctx.extra["exhaustive_note"] = ("all single faults (every I/O call in the window x every listed errno) for each explored configuration in the "
                                    "thorough tier; the quick tier keeps every call but rotates through a subset of errnos")
    ctx.finish()


if __name__ == "__main__":
    main_wrapper(main)
