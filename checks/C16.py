#!/usr/bin/env python3-vt
"""C16 -- the wrapper leaves no residue in the calling process."""
import os
import sys

sys.path.insert(0, os.path.join(os.path.dirname(os.path.abspath(__file__)), "..", "lib"))
from hypothesis import strategies as st

import drv
import gen
import pbt
from common import Ctx, Counters, Failure, main_wrapper, run_workers

PID = "C16"
RULE = ("Hypothesis-generated configurations (every output incl. failing sinks /dev/full, directory, missing socket/dir; every "
        "data source incl. a format naming all of them; every filter with and without arguments; valid, invalid, duplicate and "
        "continuation-line options; syntactically broken files: stray lines, unterminated section header, over-long line) x exec inputs x runs of 3..8 identical calls (plus runs of 300, thorough 1100, calls for representative configurations) after two warm-up calls, "
        "in plain -O2 builds with and without thread safety. Observed before the call / at real-exec entry / after return: fd "
        "table (numbers, targets, flags), live heap (mallinfo2, tcache off), environ pointer+content hash, cwd, umask, signal "
        "mask, all sigactions, RLIMIT_NOFILE, bytes pending in the caller's stdout buffer. Oracle: all equal at the three points, heap growth exactly 0 at exec entry and "
        "across calls; plus (strace injection) every I/O call of one wrapped call failing in every call from the 3rd on: fd table steady, "
        "no monotone heap growth. non-trivial = config exercising an error path, a duplicate/continuation option, or an output that opens "
        "a descriptor; distinct by (output kind, option multiset shape, call shape)")

SOURCES = gen.ALL_SOURCES


def strategy():
    @st.composite
    def case(draw):
        cfg = draw(gen.st_config("@OUT@"))
        feats = []
        if cfg["ini"] is not None and cfg["kind"] not in ("garbage", "empty"):
            opts = list(cfg["opts"])
            if draw(st.sampled_from([False, True, True])):
                opts = [(k, v) for k, v in opts if k != b"message_format"] + [(b"message_format", ALL_DS)]
                feats.append("all-data-sources")
            if draw(st.sampled_from([False, False, True])):
                ch = draw(st.sampled_from([b"exclude_spawns_of", b"exclude_spawns_of:", b"exclude_spawns_of:a,b,,c", b"only_uid",
                                           b"only_uid:0,,1", b"exclude_uid:5;only_uid:0;exclude_spawns_of:zz;only_tty", b"only_tty;noop"]))
                opts = [(k, v) for k, v in opts if k != b"filter_chain"] + [(b"filter_chain", ch)]
                feats.append("filter-args")
            lines = [k + (b"=" if v[:1] == b";" else b" = ") + v for k, v in opts]
            ndup = draw(st.sampled_from([0, 0, 1, 2, 3]))
            for _ in range(ndup):
                k = draw(st.sampled_from([b"output", b"output", b"message_format", b"filter_chain", b"syslog_ident"]))
                v = {b"output": [b"devnull", b"file:@OUT@/log", b"bogus", b"stdout", b"file", b"socket:@OUT@/sock", b":x", b"devnull:"],
                     b"message_format": [b"dup %{cmdline}", b""], b"filter_chain": [b"noop", b"only_root"],
                     b"syslog_ident": [b"i2", b"%{uid}"]}[k]
                lines.insert(draw(st.integers(0, len(lines))), k + b" = " + draw(st.sampled_from(v)))
                feats.append("duplicate")
            if draw(st.sampled_from([False, False, False, True])) and lines:
                pos = draw(st.integers(1, len(lines)))
                lines.insert(pos, b"   " + draw(st.sampled_from([b"devnull", b"file:@OUT@/log", b"x", b"noop", b"%{pid}"])))
                feats.append("continuation")
            if draw(st.sampled_from([False, False, False, False, True])):
                # an error raised INSIDE the error handler's own output call: error logging on, and an output that cannot format what it is
                # handed (syslog ident template beyond its 255-byte buffer)
                lines = [l for l in lines if not l.startswith((b"output", b"syslog_ident", b"error_logging"))] + \
                        [b"error_logging = yes", b"output = devlog", b"syslog_ident = " + draw(st.sampled_from([b"i" * 255, b"i" * 256, b"i" * 300, b"%{snoopy_literal:" + b"j" * 80 + b"}" * 1 + (b"%{snoopy_literal:" + b"k" * 80 + b"}") * 3]))]
                feats.append("error-inside-error-handler")
            if draw(st.sampled_from([False, False, False, True])):
                # a file that is syntactically broken somewhere: options before and after the bad line are still parsed
                bad = draw(st.sampled_from([b"this line has neither an equals sign nor a colon", b"[section header without the bracket",
                                            b"message_format = " + b"L" * 1100, b"=", b"no_value_marker"]))
                lines.insert(draw(st.integers(0, len(lines))), bad)
                feats.append("syntax-error")
            cfg = dict(cfg, ini=b"[snoopy]\n" + b"\n".join(lines) + b"\n")
        kind = draw(st.sampled_from(["v", "e"]))
        argv = draw(gen.st_vector(big=False))
        envp = draw(gen.st_envp(big=False))
        n = draw(st.sampled_from([3, 3, 4, 8]))
        stdio = draw(st.sampled_from(["pipe", "pipe", "null", "closed"]))
        # unflushed data in the caller's own stdout buffer is part of its state (only the stdout output may push it out)
        pending = stdio != "closed" and cfg["kind"] != "stdout" and draw(st.sampled_from([False, True]))
        # the caller's own environment (what getenv() sees) with values a data source may be tempted to "clean up": several lines,
        # trailing blanks, control bytes -- and a format that names them
        procenv = None
        if cfg.get("ini") is not None and draw(st.sampled_from([False, False, True])):
            procenv = [b"HOME=/root", b"ML=" + draw(st.sampled_from([b"line one\nline two", b"a\r\nb\n", b"\nleading", b"tab\tand blank  ", b"x=y=z", b"\x01\x7f\xff"])),
                       b"EMPTY=", b"PATH=/usr/bin:/bin"]
            cfg = dict(cfg, ini=cfg["ini"] + b"message_format = %{env:ML}|%{env:EMPTY}|%{env:HOME}|%{cmdline}\n")
            feats.append("caller-environment-named-in-format")
        return {"cfg": cfg, "feats": feats, "kind": kind, "argv": argv, "envp": envp, "n": n, "stdio": stdio, "long": False, "pending": pending, "procenv": procenv}
    return case()


ALL_DS = b"".join(b"%{" + n.encode() + (b":1" if n == "cgroup" else (b":HOME" if n == "env" else b"")) + b"}|"
                  for n in gen.ALL_SOURCES)
WARMUP = 2


def evaluate(env, c):
    for variant in env.builds:
        d = env.driver(variant)
        out = d.out
        n = c["n"]
        ops = [drv.op("x", out + "/log", out + "/log-x-0")]
        for fd in (1, 2):
            ops.append(drv.op("S", fd, c["stdio"]))
        ops += [drv.op("K", "devlog", out + "/devlog.sock", 1), drv.op("K", "sock", out + "/sock")]
        ops += gen.cfg_ops(c["cfg"], out)
        if c.get("pending") and b"stdout" not in (c["cfg"]["ini"] or b""):
            ops.append(drv.op("w", b"bytes the caller has not flushed yet"))
        if c.get("procenv"):
            ops.append(drv.op_env(c["procenv"]))
        ops.append(drv.op("P"))         # baseline before the library has ever run in this process
        for i in range(WARMUP + n):
            ops.append(drv.op_exec(c["kind"], b"/bin/prog", c["argv"], c["envp"], ret=-1, err=2, snap=True))
        res = d.scenario(ops)
        d.sanitizer_reports()
        if not res.clean:
            raise Failure("[%s] process crashed or hung" % variant, {"result": res.describe()}, key="crash")
        Rs, Ts = res.of("R"), res.of("T")
        if len(Rs) != WARMUP + n or len(Ts) != WARMUP + n:
            raise Failure("[%s] %d/%d calls completed" % (variant, len(Ts), WARMUP + n), None, key="incomplete")
        baseline = res.of("P")[0].f[0]
        for i in range(0, WARMUP + n):
            # everything except the heap must already be untouched after the very first call (no warm-up allowance)
            if Ts[i].f[6] != baseline:
                raise Failure("[%s] call %d: process state after return differs from the state before the library first ran" % (variant, i),
                              diff_state(baseline, Ts[i].f[6]), None, key="state-baseline")
        base_h0 = None
        for i in range(WARMUP, WARMUP + n):
            R, T = Rs[i], Ts[i]
            before, at_exec, after = T.f[5], R.f[4], T.f[6]
            if at_exec != before:
                raise Failure("[%s] call %d: process state at real-exec entry differs from the state before the call" % (variant, i),
                              diff_state(before, at_exec), None, key="state-at-exec")
            if after != before:
                raise Failure("[%s] call %d: process state after return differs from the state before the call" % (variant, i),
                              diff_state(before, after), None, key="state-after")
            h0, h1, h1b, h2 = (int(T.f[k]) for k in (7, 8, 9, 10))
            if h1 != h0:
                raise Failure("[%s] call %d: library retains %d bytes of heap at real-exec entry" % (variant, i, h1 - h0),
                              {"heap_before": h0, "heap_at_exec": h1}, None, key="heap-at-exec")
            if h2 != h1b:
                raise Failure("[%s] call %d: heap changed by %d bytes between real-exec return and return to the caller" % (variant, i, h2 - h1b),
                              None, None, key="heap-after")
            if base_h0 is None:
                base_h0 = h0
            elif h0 != base_h0:
                raise Failure("[%s] live heap grew by %d bytes over %d calls" % (variant, h0 - base_h0, i - WARMUP),
                              None, None, key="growth")


def diff_state(a, b):
    da = dict(p.split(b"=", 1) for p in a.split(b";") if b"=" in p)
    db = dict(p.split(b"=", 1) for p in b.split(b";") if b"=" in p)
    out = {}
    for k in sorted(set(da) | set(db)):
        if da.get(k) != db.get(k):
            if k == b"fds":
                sa, sb = set(da.get(k, b"").split(b"|")), set(db.get(k, b"").split(b"|"))
                out["fds_only_before"] = sorted(sa - sb)[:6]
                out["fds_only_after"] = sorted(sb - sa)[:6]
            else:
                out[k.decode()] = {"before": da.get(k, b"")[:200], "after": db.get(k, b"")[:200]}
    return out


def classify(c):
    k = c["cfg"]["kind"]
    errpath = k in ("file-missingdir", "file-devfull", "file-isdir", "socket-missing", "file-noarg", "bogus", "garbage", "dir", "devtty")
    opens_fd = k in ("file", "filetpl", "socket", "devlog", "default", "devnull", "devtty", "file-devfull")
    nontriv = errpath or opens_fd or bool(c["feats"])
    key = (k, tuple(sorted(set(c["feats"]))), gen.vec_class(c["argv"]), c["kind"]) if nontriv else None
    cls = ["out:" + k, "stdio:" + c["stdio"], "n:%d" % c["n"]] + sorted(set(c["feats"])) + (["caller-has-unflushed-stdout-data"] if c.get("pending") else [])
    if errpath:
        cls.append("error-path")
    return key, cls


def sample(c):
    return {"ini": c["cfg"]["ini"], "kind": c["kind"], "argv": c["argv"], "envp": c["envp"], "n": c["n"], "stdio": c["stdio"], "caller_environment": c.get("procenv")}


# ------------------------------------------------------------------ error paths reached by injected I/O failures
FAULT_ERR = {"openat": ["EMFILE", "EACCES"], "read": ["EIO"], "write": ["ENOSPC"], "newfstatat": ["EACCES"], "fstat": ["EIO"],
             "socket": ["EMFILE"], "connect": ["ECONNREFUSED"], "sendto": ["EAGAIN"], "getcwd": ["ERANGE"], "ioctl": ["ENOTTY"], "readlink": ["EACCES"],
             "lseek": ["ESPIPE"], "getdents64": ["EIO"], "access": ["EACCES"]}
# close() is never failed here: strace's injection skips the real call, which would itself manufacture a descriptor leak
NCALLS = 8


def fault_worker(args):
    import trace
    idx, jobs = args
    ctx = _F["ctx"]
    local = Counters(ctx.known, idx)
    os_ = trace.OneShot(ctx.run, _F["build"], "f%d" % idx)
    out = os_.out
    fails = []
    for cname, opts in jobs:
        ini = gen.render_ini([(k, v.replace(gen.OUT, out.encode())) for k, v in opts])
        ops = [drv.op("x", out + "/log"), drv.op("S", 1, "pipe"), drv.op("S", 2, "pipe"), drv.op("K", "devlog", out + "/devlog.sock", 1),
               drv.op("K", "sock", out + "/sock"), drv.op("C", ini)]
        for i in range(NCALLS):
            ops.append(drv.op_exec("e", b"/bin/prog", [b"prog", b"a"], [b"X=1"], ret=-1, err=2, snap=True))
        os_.write_scenario(ops)
        rc, events = os_.run_traced([], timeout=30)
        calls, _ = os_.parse_log()
        if rc != 0:
            local.inconclusive.append("dry run failed for " + cname)
            continue
        third = [c for c in calls if c["callno"] == 3 and c["phase"] == 1 and c["name"] in FAULT_ERR]
        per_call = {}
        for c in calls:
            if c["callno"] == 3:
                per_call[c["name"]] = per_call.get(c["name"], 0) + 1
        for c in third:
            for err in FAULT_ERR[c["name"]]:
                step = per_call.get(c["name"], 1)
                inj = "%s:error=%s:when=%d+%d" % (c["name"], err, c["ordinal"], step)
                rc, events = os_.run_traced(["-e", "inject=" + inj], timeout=30)
                T = [e for e in events if e.code == "T"]
                what = "%s, %s failing with %s in every call from the 3rd on (%s)" % (cname, c["name"], err, c["text"][:70])
                key = (cname, c["name"], c["ordinal"], err)
                local.count(key, ["fault-injection", "config:" + cname, "syscall:" + c["name"]], sample={"config": cname, "inject": inj, "call": c["text"][:100]})
                if rc != 0 or len(T) != NCALLS:
                    local.inconclusive.append("injected run did not complete (that is C03's subject): " + what)
                    continue
                S = [t.f[5] for t in T]          # state before each call
                H = [int(t.f[7]) for t in T]     # heap before each call
                try:
                    if S[NCALLS - 1] != S[4]:
                        raise Failure("process state keeps changing while an I/O call fails: " + what, diff_state(S[4], S[NCALLS - 1]), None, key="fault-state")
                    dres = diff_state(S[2], S[NCALLS - 1])
                    if not dict(p.split(b"=", 1) for p in S[NCALLS - 1].split(b";") if b"=" in p).get(b"fds"):
                        # the persistent fault also hit the harness's own listing of /proc/self/fd: that field was not read, not changed
                        dres.pop("fds_only_before", None)
                        dres.pop("fds_only_after", None)
                    if dres:
                        # (S[2] = before the 3rd call, the first one that meets the fault: a failing call leaves as little behind as a
                        # succeeding one -- a timer left armed, a handler not put back, a descriptor kept)
                        raise Failure("process state after calls in which an I/O call failed differs from the state before the first of them: " + what,
                                      dres, None, key="fault-residue")
                    if H[7] > H[6] > H[5] > H[4]:
                        raise Failure("live heap grows with every call while an I/O call fails: " + what, {"heap_before_calls_5_to_8": H[4:]}, None, key="fault-growth")
                except Failure as f:
                    if local.is_known(f.key):
                        local.known_hit(f.key, f.what)
                    elif not fails:
                        fails.append({"case": {"fault": inj, "config": cname}, "what": f.what, "observed": f.observed, "expected": None})
    return local.export(), fails


_F = {}


def fault_phase(ctx, build):
    o = gen.OUT
    cfgs = [("file+all-ds", [(b"output", b"file:" + o + b"/log"), (b"message_format", ALL_DS)]),
            ("devlog+ident", [(b"output", b"devlog"), (b"syslog_ident", b"%{username}-%{login}"), (b"message_format", b"%{cwd} %{tty_username} %{rpname} %{cgroup:memory}")]),
            ("socket+chain", [(b"output", b"socket:" + o + b"/sock"), (b"filter_chain", b"exclude_spawns_of:zz,yy;only_uid:0"), (b"message_format", b"%{cmdline} %{egroup} %{eusername}")]),
            ("stdout+default", [(b"output", b"stdout")])]
    if ctx.quick:
        cfgs = cfgs[:2]
    _F.update({"ctx": ctx, "build": build})
    nw = 8
    for out, fails in run_workers(fault_worker, nw, [(i, cfgs[i::nw]) for i in range(min(nw, len(cfgs)))]):
        ctx.merge(out)
        for f in fails[:1]:
            if len(ctx.violations) < 3:
                ctx.violation(f["case"], f["observed"], f["expected"], f["what"])


def main():
    ctx = Ctx(PID, "exploration", RULE)
    bs = ctx.run.build_many(["ts-plain", "nts-plain"])
    builds = {b["name"]: b for b in bs}
    ctx.assumptions = ["two warm-up calls absorb one-time libc allocations (stdio buffers, NSS modules, tz data)",
                       "heap = mallinfo2().uordblks + hblkhd with the per-thread cache disabled (GLIBC_TUNABLES)",
                       "I/O failures are produced by real failing sinks (/dev/full, directory, missing socket/dir); syscall-level fault "
                       "injection is exercised by C03"]
    nw, per = (4, 350) if ctx.quick else (16, 3000)
    fixed = []
    if True:
        # long runs: 300 (quick) / 1100 (thorough) identical calls for a handful of representative configurations -- the 100th or
        # 1000th call of a process must leave as little behind as the 3rd
        longs = [("file", [(b"output", b"file:@OUT@/log")]), ("default", []), ("stdout", [(b"output", b"stdout")]),
                 ("file-devfull", [(b"output", b"file:/dev/full")]), ("socket", [(b"output", b"socket:@OUT@/sock")])]
        for kind, opts in longs[:2] if ctx.quick else longs:
            o2 = opts + [(b"message_format", ALL_DS), (b"filter_chain", b"exclude_spawns_of:zz;only_uid:0")]
            fixed.append({"cfg": {"kind": kind, "ini": gen.render_ini(o2), "opts": o2}, "feats": ["all-data-sources"], "kind": "e",
                          "argv": [b"a", b"b"], "envp": [b"X=1"], "n": 300 if ctx.quick else 1100, "stdio": "pipe", "long": True})
    # records larger than one datagram can be (socket-type outputs with a listening receiver, both limits raised to the maximum): the
    # send is refused with EMSGSIZE -- whatever the output does about that, it keeps nothing
    for oval in ((b"socket:@OUT@/sock", b"devlog") if not ctx.quick else (b"socket:@OUT@/sock",)):
        o3 = [(b"output", oval), (b"message_format", b"%{cmdline}"), (b"datasource_message_max_length", b"1048575"), (b"log_message_max_length", b"1048575")]
        fixed.append({"cfg": {"kind": "socket", "ini": gen.render_ini(o3), "opts": o3}, "feats": ["record-larger-than-a-datagram"], "kind": "e",
                      "argv": [b"big", b"D" * 278000], "envp": [b"X=1"], "n": 8, "stdio": "pipe", "long": False})
    # the account database and the hosts file are generated inputs here as well (C12 builds them): /etc/hosts has a fully qualified
    # entry for this machine, so that %{domain} takes its "found" path; long passwd / group lines make the lookups retry
    import C12
    C12.make_sysfiles(ctx.run.dir)
    pbt.run(ctx, builds, strategy, evaluate, classify, nw, per, sample=sample, fixed_cases=fixed,
            driver_kwargs={"binds": [(v, k) for k, v in sorted(C12.SYSFILES.items())]})
    if not ctx.replay:
        import trace
        trace.BINDS[:] = [(v, k) for k, v in sorted(C12.SYSFILES.items())]
        fault_phase(ctx, builds["ts-plain"])
    ctx.finish()


if __name__ == "__main__":
    main_wrapper(main)
