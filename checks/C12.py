#!/usr/bin/env python3-vt
"""C12 -- identity and environment data sources report the process's true state."""
import calendar
import grp
import os
import pwd
import re
import sys
import time

sys.path.insert(0, os.path.join(os.path.dirname(os.path.abspath(__file__)), "..", "lib"))
from hypothesis import strategies as st

import drv
import gen
import model
import pbt
from common import Ctx, Failure, Skip, main_wrapper

PID = "C12"
RULE = ("Hypothesis-generated process states built by the harness as root: (ruid,euid,suid,rgid,egid,sgid) drawn from ids with and "
        "without passwd/group entries, pairwise distinct in most cases; new session; cwd normal / deep (up to ~4000 bytes) / renamed "
        "/ deleted; stdin pty (slave chowned to a third uid) / pipe / closed; environments empty / small / huge / names with '='; "
        "ancestor chains of depth 0..6 with set names, orphaned (parent = init) processes; private UTS namespace with a generated "
        "host name; LOGNAME/SUDO_USER; strftime formats from a set; cgroup selectors by number and controller (plus, traced: each read() of /proc/<pid>/cgroup failing with EINTR/EIO -> true line or explicit failure text). One record with every "
        "data source is compared, source by source, with an oracle computed in the same state by raw syscalls / own /proc parsing / "
        "the system's passwd+group database. non-trivial = at least three of {uid,euid,gid,egid} differ, or a tty is present, or cwd "
        "is deleted/deep, or the process is an orphan; distinct by state class")

SEP = b"\x1e"
SOURCES = ["uid", "euid", "gid", "egid", "username", "eusername", "group", "egroup", "pid", "ppid", "sid", "tid", "tid_kernel", "cwd",
           "hostname", "tty", "tty_uid", "tty_username", "login", "env:V1", "env:A=B", "env:UNSET", "env_all", "rpname",
           "timestamp", "timestamp_ms", "timestamp_us", "snoopy_version", "snoopy_configure_command", "snoopy_threads", "filename",
           "domain", "ipaddr", "systemd_unit_name"]
DT_FORMATS = [b"", b"%Y-%m-%d", b"%H:%M", b"%s", b"%F %T", b"%j", b"%Y%m%dT%H%M%SZ", b"%%lit%%", b"%y/%m/%d %Hh"]
CG_SELECTORS = [b"0", b"1", b"4", b"9", b"77", b"memory", b"cpu", b"name=systemd", b"nosuchctl", b"cpuacct"]
try:
    # selectors derived from the controllers this sandbox really has: exact names, proper prefixes, extensions, line numbers +-1
    for _ln in open("/proc/self/cgroup", "rb").read().split(b"\n"):
        _num, _, _rest = _ln.partition(b":")
        for _c in _rest.partition(b":")[0].split(b","):
            if _c:
                CG_SELECTORS += [_c, _c[:-1], _c[:2], _c + b"x", _c.upper()]
        if _num.isdigit():
            CG_SELECTORS += [_num, _num + b"0", b"0" + _num]
    CG_SELECTORS = sorted(set(x for x in CG_SELECTORS if x and b"}" not in x and b":" not in x))
except OSError:
    pass
UIDS_WITH = [0, 1, 2, 33, 1000, 65534, 4300, 4301, 4302, 4303, 4304]
UIDS_WITHOUT = [4242, 70000, 2 ** 31, 1234567]
GIDS_WITH = [0, 1, 2, 33, 1000, 65534, 4300, 4301, 4304, 4305]
GIDS_WITHOUT = [4243, 70001, 2 ** 31 + 1]
VERSION = CONFIGURE = CONFIGURE_SECURE = b""


def strategy():
    @st.composite
    def case(draw):
        ids = draw(st.sampled_from(["root", "distinct", "distinct", "random"]))
        if ids == "root":
            u, g = [0, 0, 0], [0, 0, 0]
        elif ids == "distinct":
            u = draw(st.permutations(UIDS_WITH + UIDS_WITHOUT))[:3]
            g = draw(st.permutations(GIDS_WITH + GIDS_WITHOUT))[:3]
        else:
            u = [draw(st.sampled_from(UIDS_WITH + UIDS_WITHOUT)) for _ in range(3)]
            g = [draw(st.sampled_from(GIDS_WITH + GIDS_WITHOUT)) for _ in range(3)]
        cwd = draw(st.sampled_from(["keep", "keep", "deep", "deep", "renamed", "deleted"]))
        deep_len = draw(st.sampled_from([300, 1000, 2040, 2047, 2048, 2049, 3000, 3900]))
        stdin = draw(st.sampled_from(["pty", "pty", "pipe", "closed", "null"]))
        tty_owner = draw(st.sampled_from([0, 1, 1000, 4242, 65534]))
        envk = draw(st.sampled_from(["small", "small", "empty", "huge", "eqnames", "emptyentries"]))
        v1 = draw(gen.bytes_nonul(0, 30)).replace(SEP, b"_").replace(b"\n", b"_")
        chain = draw(st.lists(gen.ident_bytes(1, 15), min_size=0, max_size=6))
        orphan = draw(st.sampled_from([False, False, False, True]))
        newsid = draw(st.booleans())
        # (node names up to the kernel's maximum of 64 bytes)
        host = draw(st.one_of(st.none(), gen.ident_bytes(1, 40), st.sampled_from([63, 64, 64]).map(lambda n: (b"node-with-a-very-long-name-" * 3)[:n])))
        logname = draw(st.one_of(st.none(), gen.ident_bytes(1, 20), gen.ident_bytes(250, 260)))
        sudo_user = draw(st.one_of(st.none(), st.none(), gen.ident_bytes(1, 20)))
        dtf = draw(st.sampled_from(DT_FORMATS))
        cgs = draw(st.sampled_from(CG_SELECTORS))
        # kernel name of the calling process (with a pid namespace of its own it is also the "root process" of its chain)
        leaf = draw(st.one_of(gen.ident_bytes(1, 15), st.sampled_from([b" lead", b"  two", b"\ttab", b"trail ", b"in ner", b"kworker/u8:1", b"a:b", b"(paren)", b"123456789012345"])))
        return {"u": list(u), "g": list(g), "cwd": cwd, "deep_len": deep_len, "stdin": stdin, "tty_owner": tty_owner, "envk": envk,
                "v1": v1, "chain": chain, "orphan": orphan, "newsid": newsid, "host": host, "logname": logname, "sudo_user": sudo_user,
                "dtf": dtf, "cgs": cgs, "leaf": leaf, "bigpid": draw(st.sampled_from([0] * 7 + [1234567, 4194000])),
                # the calling program is a set-uid-root program started by another user (sudo, su, pkexec ...): secure-execution mode of the
                # loader and the C library, libraries loaded through /etc/ld.so.preload
                "secure": draw(st.sampled_from([False, False, False, True])),
                # the session has an audit login uid (cron job, ssh session): the login name does not depend on a terminal then
                "loginuid": draw(st.sampled_from([False, False, False, True]))}
    return case()


SECURE = "ts-plain-secure"
LOGINUID = "ts-asan-loginuid"
UTMP = None


def build_format(c):
    parts = []
    for s in SOURCES:
        parts.append(SEP + s.encode() + b"=%{" + s.encode() + b"}")
    parts.append(SEP + b"datetime=%{datetime" + (b":" + c["dtf"] if c["dtf"] else b"") + b"}")
    parts.append(SEP + b"cgroup=%{cgroup:" + c["cgs"] + b"}")
    parts.append(SEP + b"cmdline=%{cmdline}")
    return b"".join(parts)


def environ_for(c):
    env = []
    if c["envk"] == "empty":
        env = []
    elif c["envk"] == "huge":
        env = [b"H%d=" % i + b"h" * 100 for i in range(40)]
    elif c["envk"] == "eqnames":
        env = [b"A=B=c", b"=weird", b"NOEQ"]
    elif c["envk"] == "emptyentries":
        env = [b"", b"", b"E1=x", b"", b"E2=y"]
    else:
        env = [b"HOME=/root", b"PATH=/bin"]
    env.append(b"V1=" + c["v1"])
    if c["logname"] is not None:
        env.append(b"LOGNAME=" + c["logname"])
    if c["sudo_user"] is not None:
        env.append(b"SUDO_USER=" + c["sudo_user"])
    env.append(b"TZ=UTC")
    return env


# ---- system files with generated content (bind-mounted over /etc/passwd, /etc/group, /etc/hosts inside the drivers' private mount
# namespace): the account database and the hosts file are inputs of the data sources just like the process state is
PW, GR, PW_ALLNAMES, GR_ALLNAMES = {}, {}, set(), set()
LONG_UIDS, LONG_GIDS = {4300, 4302}, {4300}
HOSTS = b""
SYSFILES = {}


def make_sysfiles(rundir):
    d = os.path.join(rundir, "sysfiles")
    os.makedirs(d, exist_ok=True)
    passwd = open("/etc/passwd", "rb").read()
    if not passwd.endswith(b"\n"):
        passwd += b"\n"
    passwd += (b"longgecos:x:4300:4300:" + b"G" * 3000 + b":/home/l:/bin/sh\n" + b"emptyfields:x:4301:4301:::\n" +
               b"n" * 200 + b":x:4302:4302:very long login name:/:/bin/sh\n" + b"dupfirst:x:4303:4303::/:/bin/sh\ndupsecond:x:4303:4303::/:/bin/sh\n" +
               b"# a comment line\n\nlastline:x:4304:4304::/:/bin/sh")          # (no final newline)
    group = open("/etc/group", "rb").read()
    if not group.endswith(b"\n"):
        group += b"\n"
    group += (b"midgroup:x:4305:" + b",".join(b"dev%02d" % i for i in range(24)) + b"\n" +
              b"manymembers:x:4300:" + b",".join(b"member%04d" % i for i in range(400)) + b"\n" + b"g4301:x:4301:\n" + b"glast:x:4304:root")
    import socket
    hn = socket.gethostname().encode()
    hosts = (b"127.0.0.1 localhost\n# " + hn + b".commented.example\n" + b"10.0.0.1 " + b" ".join(b"alias%03d.example.net" % i for i in range(90)) + b"\n" +
             b"::1 ip6-localhost\n10.9.8.7\t" + hn.upper() + b".Corp.Example.ORG " + hn + b"\n10.9.8.8 other\t# trailing comment without newline")
    # name service switch: the account databases are plain files only -- an unreadable file is then an ERROR of the lookup, not something the
    # next service quietly papers over
    nss = b"".join((b"passwd: files\n" if l.startswith(b"passwd:") else b"group: files\n" if l.startswith(b"group:") else l + b"\n")
                   for l in open("/etc/nsswitch.conf", "rb").read().split(b"\n") if l.strip())
    for name, content in (("passwd", passwd), ("group", group), ("hosts", hosts), ("nsswitch.conf", nss)):
        with open(os.path.join(d, name), "wb") as f:
            f.write(content)
        os.chmod(os.path.join(d, name), 0o644)
        SYSFILES["/etc/" + name] = os.path.join(d, name)
    for ln in passwd.split(b"\n"):
        f = ln.split(b":")
        if len(f) >= 7 and f[2].isdigit() and not ln.startswith(b"#"):
            PW.setdefault(int(f[2]), f[0])
            PW_ALLNAMES.add(f[0])
    for ln in group.split(b"\n"):
        f = ln.split(b":")
        if len(f) >= 4 and f[2].isdigit() and not ln.startswith(b"#"):
            GR.setdefault(int(f[2]), f[0])
            GR_ALLNAMES.add(f[0])
    global HOSTS
    HOSTS = hosts


def domain_model(hostname):
    """what the hosts file says about <hostname>: text following '<hostname>.' (any case) up to the next blank, first line that has it,
    '#' starts a comment; lines are read in pieces of at most 1023 bytes"""
    if not hostname:
        return None
    needle = hostname.lower() + b"."
    for ln in HOSTS.split(b"\n"):
        pieces = [ln[i:i + 1023] for i in range(0, max(len(ln), 1), 1023)]
        for pc in pieces:
            pc = pc.split(b"#", 1)[0]
            i = pc.lower().find(needle)
            if i >= 0:
                tok = re.split(rb"[ \t\r\n]", pc[i:], 1)[0]
                return tok[len(needle):]
    return b"(none)"


def pw_name(uid):
    return PW.get(uid)


def gr_name(gid):
    return GR.get(gid)


def evaluate(env, c):
    d = env.driver(SECURE if c.get("secure") and SECURE in env.builds else (LOGINUID if c.get("loginuid") and LOGINUID in env.builds else "ts-asan"))
    out = d.out
    import shutil
    work = os.path.join(out, "w")
    shutil.rmtree(work, ignore_errors=True)
    os.makedirs(work)
    os.chmod(work, 0o777)
    fmt = build_format(c)
    ini = gen.render_ini([(b"output", b"file:" + out.encode() + b"/log"), (b"message_format", fmt),
                          (b"log_message_max_length", b"1048575")])
    if any(len(l) > 1022 for l in ini.split(b"\n")):
        raise Failure("harness: format line too long", None, key="harness")
    environ = environ_for(c)
    # one call in the ancestor process first: whatever the library caches per process/thread must not survive fork()
    ops = [drv.op("W", "log", out + "/log"), drv.op("C", ini), drv.op_exec("v", b"/bin/ancestor", [b"ancestor"], [], ret=-1, err=2),
           drv.op("x", out + "/log"), drv.op("f")]
    if c["host"] is not None:
        ops.append(drv.op("n", c["host"]))
    if c["newsid"]:
        ops.append(drv.op("s"))
    if c["chain"]:
        ops.append(drv.op("F", *c["chain"]))
    if c["orphan"]:
        ops.append(drv.op("o"))
    if c.get("bigpid"):
        ops.append(drv.op("g", c["bigpid"]))        # the process that makes the call itself gets the 7-digit pid
    ops.append(drv.op("N", c["leaf"]))
    ops.append(drv.op("H", work))
    if c["cwd"] in ("deep", "renamed", "deleted"):
        comps = []
        if c["cwd"] == "deep":
            remaining = c["deep_len"] - len(work)
            while remaining > 1:
                n = min(200, remaining - 1)
                comps.append(b"d" * n)
                remaining -= n + 1
        else:
            comps = [b"sub1", b"sub2"]
        ops.append(drv.op("h", *comps))
        if c["cwd"] == "renamed":
            ops.append(drv.op("r", work + "/sub1", work + "/moved"))
        if c["cwd"] == "deleted":
            ops.append(drv.op("u", work + "/sub1/sub2"))
    if c["stdin"] == "pty":
        ops.append(drv.op("S", 0, "pty", c["tty_owner"]))
    elif c["stdin"] == "pipe":
        ops.append(drv.op("S", 0, "pipein"))
    elif c["stdin"] == "closed":
        ops.append(drv.op("S", 0, "closed"))
    else:
        ops.append(drv.op("S", 0, "null"))
    ops.append(drv.op_env(environ))
    ops.append(drv.op("U", c["g"][0], c["g"][1], c["g"][2], c["u"][0], c["u"][1], c["u"][2], c["g"][1]))
    path = b"/bin/prog-" + c["leaf"]
    ops += [drv.op("Q"), drv.op_exec("e", path, [b"prog", b"a b"], [b"IGNORED=1"], ret=-1, err=2), drv.op("Q"), drv.op("G")]
    res = d.scenario(ops)
    reports = d.sanitizer_reports()
    errs = [e for e in res.errors() if e[0] not in ("rmdir",)]
    if not res.clean or not res.of("G"):
        raise Failure("process crashed or hung", {"result": res.describe(), "sanitizer": [r[:2000] for r in reports[:1]]}, key="crash")
    if errs:
        # a state the sandbox could not construct is a harness limitation, not a verdict
        raise Skip("harness step failed: %r" % (errs[:2],))
    Q0, Q1 = res.of("Q")[0].f, res.of("Q")[-1].f
    content = drv.parse_dump(res.of("G")[-1])["log"][2]
    if content is None or not content.endswith(b"\n"):
        raise Failure("no record produced", {"content": content}, key="norecord")
    rec = {}
    names = SOURCES + ["datetime", "cgroup", "cmdline"]
    for part in content[:-1].split(SEP)[1:]:
        for nme in sorted(names, key=len, reverse=True):
            if part.startswith(nme.encode() + b"="):
                rec[nme] = part[len(nme) + 1:]
                break
    ru, eu, su = (int(x) for x in Q0[0].split())
    rg, eg, sg = (int(x) for x in Q0[1].split())
    pid, ppid, sid, ktid = (int(x) for x in Q0[2].split())
    t0 = float(Q0[8])
    t1 = float(Q1[8])
    L = 2047
    bad = {}

    def expect(name, ok, want):
        if not ok:
            bad[name] = {"got": rec.get(name, b"<missing>")[:300], "expected": want}

    def eq(name, want):
        expect(name, rec.get(name) == want, want)

    eq("uid", str(ru).encode()); eq("euid", str(eu).encode()); eq("gid", str(rg).encode()); eq("egid", str(eg).encode())
    eq("pid", str(pid).encode()); eq("ppid", str(ppid).encode()); eq("sid", str(sid).encode())
    eq("tid_kernel", str(ktid).encode()); eq("tid", Q0[3])
    for name, ident in (("username", ru), ("eusername", eu)):
        n = pw_name(ident)
        if n is not None and ident in LONG_UIDS:
            # an entry longer than the usual 1 KiB lookup buffer: the name, or an explicit failure text -- never another account's name
            got = rec.get(name, b"")
            expect(name, got == n or got[:200] == n[:200] or (got != b"" and got not in PW_ALLNAMES), n[:40] + b"... or a failure text")
        elif n is not None:
            eq(name, n)
        else:
            # no passwd entry: any placeholder that is not the name of another existing account and mentions no wrong id
            got = rec.get(name, b"")
            expect(name, got != b"" and got not in PW_ALLNAMES and
                   (not re.search(rb"\d+", got) or str(ident).encode() in got or str(ident - 2 ** 32).encode() in got),
                   "placeholder for uid %d without passwd entry" % ident)
    for name, ident in (("group", rg), ("egroup", eg)):
        n = gr_name(ident)
        if n is not None and ident in LONG_GIDS:
            got = rec.get(name, b"")
            expect(name, got == n or (got != b"" and got not in GR_ALLNAMES), n + b" or a failure text")
        elif n is not None:
            eq(name, n)
        else:
            got = rec.get(name, b"")
            expect(name, got != b"" and got not in GR_ALLNAMES, "placeholder for gid %d without group entry" % ident)
    # cwd
    cwd = Q0[4]
    if cwd.startswith(b"\x01ERR") or cwd.startswith(b"(unreachable)"):
        expect("cwd", rec.get("cwd", b"").startswith(b"[ERROR: Data source 'cwd' failed") or rec.get("cwd") == cwd[:L], "error text (cwd unreachable)")
    else:
        expect("cwd", rec.get("cwd") == cwd[:L] or (len(cwd) > L and cwd.startswith(rec.get("cwd", b"\x00")) and L - 8 <= len(rec["cwd"]) <= L), cwd[:80] + b"...(%d bytes)" % len(cwd))
    eq("hostname", Q0[5])
    dm = domain_model(Q0[5])
    if dm is not None and len(Q0[5]) < 60:
        eq("domain", dm[:L])
    # tty
    ttypath, ttyuid = Q0[6], Q0[7]
    if ttypath == b"\x01NOFD":
        expect("tty", b"EBADF" in rec.get("tty", b"") or rec.get("tty") in (b"(none)", b"(unknown)"), "EBADF text")
        expect("tty_uid", not re.match(rb"^\d+$", rec.get("tty_uid", b"")), "no uid (stdin closed)")
    elif ttypath == b"\x01NOTTY":
        eq("tty", b"(none)")
        eq("ipaddr", b"-")
        expect("tty_uid", not re.match(rb"^\d+$", rec.get("tty_uid", b"")), "(none)")
        expect("tty_username", rec.get("tty_username") == rec.get("tty_uid") or not pw_known(rec.get("tty_username")), "(none)")
    else:
        eq("tty", ttypath)
        eq("tty_uid", ttyuid)
        mt = re.match(rb"^/dev/pts/(\d+)$", ttypath)
        if UTMP and mt and int(mt.group(1)) < 512:
            # the generated login records give every pts line its own remote address
            eq("ipaddr", b"10.77.%d.%d" % (int(mt.group(1)) >> 8, int(mt.group(1)) & 255))
        n = pw_name(int(ttyuid))
        if n is not None:
            eq("tty_username", n)
    # login: libc's own answer in the same state, else SUDO_USER, else LOGNAME, else (unknown)
    lg = Q0[11]
    if not lg.startswith(b"\x01ERR"):
        eq("login", lg)
    else:
        want = c["sudo_user"] if c["sudo_user"] is not None else (c["logname"] if c["logname"] is not None else b"(unknown)")
        expect("login", rec.get("login") == want or (len(want) > 254 and rec.get("login", b"\x00") == want[:len(rec["login"])] and 250 <= len(rec["login"]) <= 255), want[:60])
    # environment
    v = model.getenv_model(environ, b"V1")
    eq("env:V1", v if v is not None else b"(undefined)")
    v = model.getenv_model(environ, b"A=B")
    eq("env:A=B", v if v is not None else b"(undefined)")
    eq("env:UNSET", b"(undefined)")
    allenv = b",".join(environ)
    got = rec.get("env_all", b"")
    if len(allenv) <= L - 8:
        eq("env_all", allenv)
    else:
        core = got[:-3] if got.endswith(b"...") else got
        expect("env_all", len(got) <= L and allenv.startswith(core) and len(core) >= L - 16, "prefix of the joined environment (+ '...')")
    # rpname: first process below init in [self] + ancestors
    anc = [a for a in Q0[9].split(b"\n")[:-1]]
    if not int(Q0[10]) and anc:
        want = Q0[13] if len(anc) == 1 else anc[-2]
        eq("rpname", want)
    # time
    def ts_ok(val, scale):
        try:
            x = int(val)
        except (TypeError, ValueError):
            return False
        return int(t0 * scale) - scale <= x <= int(t1 * scale) + scale
    expect("timestamp", ts_ok(rec.get("timestamp"), 1), "within [%d,%d]" % (t0, t1 + 1))
    def frac_ok(val, scale):
        # documented as the millisecond / microsecond PART of the current time
        try:
            x = int(val)
        except (TypeError, ValueError):
            return False
        if not 0 <= x < scale or len(val) != len(str(scale)) - 1 or not val.isdigit():
            return False        # a "part" of the timestamp: the 3- / 6-digit fraction, so that seconds.part reads as a decimal number
        if t1 - t0 >= 0.9:
            return True
        lo, hi = int((t0 % 1) * scale) - 2, int((t1 % 1) * scale) + 2
        return lo <= x <= hi if lo <= hi else (x >= lo or x <= hi)
    expect("timestamp_ms", frac_ok(rec.get("timestamp_ms"), 1000), "millisecond part within the call window")
    expect("timestamp_us", frac_ok(rec.get("timestamp_us"), 1000000), "microsecond part within the call window")
    fmtd = (c["dtf"] or b"%Y-%m-%dT%H:%M:%S%z").decode()
    cands = set()
    for sec in range(int(t0) - 1, int(t1) + 2):
        tm = time.gmtime(sec)
        s_ = time.strftime(fmtd.replace("%s", str(sec)).replace("%z", "+0000"), tm)
        cands.add(s_.encode())
    expect("datetime", rec.get("datetime") in cands, sorted(cands)[:2])
    # cgroup
    cgfile = Q0[12]
    if not cgfile.startswith(b"\x01"):
        want = b"(none)"
        sel = c["cgs"]
        for ln in cgfile.split(b"\n"):
            if not ln:
                continue
            num, _, rest = ln.partition(b":")
            ctrls, _, pth = rest.partition(b":")
            if (sel.isdigit() and num == sel) or (not sel.isdigit() and sel in ctrls.split(b",") and ctrls):
                want = ln
                break
        eq("cgroup", want)
    eq("snoopy_version", VERSION)
    eq("snoopy_configure_command", (CONFIGURE_SECURE if c.get("secure") and CONFIGURE_SECURE else CONFIGURE)[:L])
    eq("snoopy_threads", b"1")
    eq("filename", path)
    eq("cmdline", b"prog a b")
    if bad:
        raise Failure("data source(s) disagree with the process state: " + ",".join(sorted(bad)), bad,
                      {"state": {"uids": [ru, eu, su], "gids": [rg, eg, sg], "cwd": c["cwd"], "stdin": c["stdin"], "orphan": c["orphan"]}},
                      key="value:" + ",".join(sorted(bad)))


def pw_known(name):
    return name is not None and name in PW_ALLNAMES


def classify(c):
    distinct = len({c["u"][0], c["u"][1]}) + len({c["g"][0], c["g"][1]}) >= 4 or len({c["u"][0], c["u"][1], c["g"][0], c["g"][1]}) >= 3
    tty = c["stdin"] == "pty"
    nontriv = distinct or tty or c["cwd"] in ("deleted", "deep") or c["orphan"]
    cls = ["cwd:" + c["cwd"], "stdin:" + c["stdin"], "env:" + c["envk"], "chain:%d" % len(c["chain"])] + (["pid:7-digits(own pid namespace)"] if c.get("bigpid") else []) + \
          (["set-uid-program-started-by-another-user(AT_SECURE)"] if c.get("secure") else []) + \
          (["session-with-audit-login-uid"] if c.get("loginuid") and not c.get("secure") else [])
    for f, n in ((distinct, "ids-distinct"), (c["orphan"], "orphan"), (c["newsid"], "new-session"), (c["host"] is not None, "uts-hostname"),
                 (any(pw_name(u) is None for u in c["u"][:2]), "uid-without-passwd-entry"),
                 (any(gr_name(g) is None for g in c["g"][:2]), "gid-without-group-entry")):
        if f:
            cls.append(n)
    key = (distinct, tty, c["cwd"], c["orphan"], c["stdin"], c["envk"], len(c["chain"]) > 0, c["deep_len"] if c["cwd"] == "deep" else 0) if nontriv else None
    return key, cls


def interrupted_reads_phase(ctx, b):
    """%{cgroup:X} when a read() of /proc/<pid>/cgroup fails (signal without SA_RESTART -> EINTR, EIO): the value is the process's true
    line or the documented explicit failure text -- never a different 'valid-looking' value such as (none)."""
    import trace
    os_ = trace.OneShot(ctx.run, b, "cgread")
    out = os_.out
    try:
        lines = [l for l in open("/proc/self/cgroup", "rb").read().split(b"\n") if l]
    except OSError:
        lines = []
    if not lines:
        ctx.inconclusive.append("no /proc/self/cgroup lines in this sandbox: interrupted-read phase skipped")
        return
    num, _, rest = lines[0].partition(b":")
    ctrls = rest.partition(b":")[0]
    sels = [num] + ([ctrls.split(b",")[0]] if ctrls else [])
    for sel in sels:
        ini = gen.render_ini([(b"output", b"file:" + out.encode() + b"/log"), (b"message_format", b"CG=%{cgroup:" + sel + b"}|END")])
        os_.write_scenario([drv.op("x", out + "/log"), drv.op("C", ini), drv.op_exec("e", b"/bin/prog", [b"prog"], [], ret=-1, err=2)])

        def record():
            try:
                return open(out + "/log", "rb").read()
            except FileNotFoundError:
                return b""
        rc, events = os_.run_traced([], timeout=30)
        calls, _ = os_.parse_log()
        truth = record()
        want = b"CG=" + lines[0] + b"|END\n"
        if rc != 0 or truth != want:
            ctx.inconclusive.append("interrupted-read phase: undisturbed traced run gives %r, expected %r" % (truth[:80], want[:80]))
            return
        fd, reads = None, []
        for c in calls:
            if c["phase"] != 1:
                continue
            m = re.search(r'/cgroup", [^)]*\) = (\d+)', c["text"])
            if c["name"] == "openat" and m:
                fd = m.group(1)
            elif fd is not None and c["name"] == "read" and c["text"].startswith("read(%s," % fd):
                reads.append(c)
            elif fd is not None and c["name"] == "close" and c["text"].startswith("close(%s)" % fd):
                fd = None
        for k, c in enumerate(reads):
            for e in ("EINTR", "EIO"):
                try:
                    os.unlink(out + "/log")
                except FileNotFoundError:
                    pass
                inj = "read:error=%s:when=%d" % (e, c["ordinal"])
                rc, events = os_.run_traced(["-e", "inject=" + inj], timeout=30)
                got = record()
                ctx.count(("cgread", sel, k, e), ["fault:read-of-cgroup-file", "errno:" + e], sample={"selector": sel, "fault": inj, "read": c["text"][:80], "record": got[:120]})
                if rc != 0:
                    ctx.violation({"cgroup_read_fault": inj, "selector": sel}, {"rc": rc}, None, "call crashed when a read of /proc/<pid>/cgroup failed (%s)" % inj)
                    return
                if got != want and b"[ERROR: Data source 'cgroup' failed" not in got:
                    ctx.violation({"cgroup_read_fault": inj, "selector": sel}, {"record": got[:200]}, {"record": want, "or": "explicit data source failure text"},
                                  "%%{cgroup:%s} reports a value that is neither the process's control group line nor an explicit failure when read #%d of /proc/<pid>/cgroup fails with %s"
                                  % (sel.decode("latin-1"), k + 1, e))
                    return


def main():
    global VERSION, CONFIGURE, CONFIGURE_SECURE, UTMP
    ctx = Ctx(PID, "exploration", RULE)
    b = ctx.run.build("ts-asan")
    cfgh = open(os.path.join(b["src"], "config.h")).read()
    VERSION = re.search(r'#define PACKAGE_VERSION "([^"]*)"', cfgh).group(1).encode()
    CONFIGURE = re.search(r'#define SNOOPY_CONFIGURE_COMMAND "(.*)"\n', cfgh).group(1).encode().replace(b'\\"', b'"')
    ctx.assumptions = ["systemd_unit_name is only exercised (no oracle): the sandbox cannot shape systemd cgroups; ipaddr: /run/utmp is a generated file in the drivers' mount namespace (512 pts lines, each with its own remote address); "
                       "/etc/passwd, /etc/group and /etc/hosts are generated files bind-mounted inside the drivers' mount namespace (3000-byte GECOS, "
                       "200-byte login name, 400 group members, empty fields, duplicate uid, comment lines, no final newline; hosts: 1800-byte line, "
                       "commented entry, mixed-case name, last line without newline)", "names for ids without passwd/group entry: any placeholder that is not another account's name",
                       "timestamp_ms / timestamp_us are the zero-padded 3- / 6-digit fraction of the second", "login is compared with libc's getlogin_r in the same state, then the documented SUDO_USER/LOGNAME fallback",
                       "states the sandbox refuses to construct (e.g. setresuid errors) are skipped and counted, never judged"]
    nw, per = (4, 350) if ctx.quick else (16, 2500)
    make_sysfiles(ctx.run.dir)
    UTMP = os.path.join(ctx.run.dir, "utmp.generated")
    drv.make_utmp(UTMP)
    bsec = dict(ctx.run.build("ts-plain"), name=SECURE, driver_kwargs={"secure": True})
    CONFIGURE_SECURE = re.search(r'#define SNOOPY_CONFIGURE_COMMAND "(.*)"\n', open(os.path.join(bsec["src"], "config.h")).read()).group(1).encode().replace(b'\\"', b'"')
    blog = dict(b, name=LOGINUID, driver_kwargs={"loginuid": 1})
    pbt.run(ctx, {"ts-asan": b, SECURE: bsec, LOGINUID: blog}, strategy, evaluate, classify, nw, per, driver_kwargs={"binds": [(v, k) for k, v in sorted(SYSFILES.items())], "utmp": UTMP})
    if not ctx.replay:
        interrupted_reads_phase(ctx, b)
    ctx.finish()


if __name__ == "__main__":
    main_wrapper(main)
