#!/usr/bin/env python3-vt
"""C06 -- cmdline and filename describe the current call only (histories in one process)."""
import os
import sys

sys.path.insert(0, os.path.join(os.path.dirname(os.path.abspath(__file__)), "..", "lib"))
from hypothesis import strategies as st

import drv
import gen
import model
import pbt
from common import Ctx, Failure, main_wrapper

PID = "C06"
RULE = ("Hypothesis-generated histories of 2..12 steps executed in ONE process per build (thread-safe and non-thread-safe): "
        "execv/execve with generated path and argv (NULL, {NULL}, 1..5000 entries, empty strings, spaces/control bytes/"
        "newlines, totals around and far above the data-source limit, limits from 255 to 100000, i.e. also paths beyond PATH_MAX), calls from a second thread (ts build), and changes "
        "of datasource_message_max_length, removal of the working directory; format '[%{cwd}<0x1f>]%{filename}<0x1f>%{cmdline}' (the cwd field, which fails once the directory is gone, must be identical for all calls made in the same directory), each record read as the byte content the "
        "call added. non-trivial = history with (long call followed by a shorter one) OR (non-NULL argv followed by "
        "NULL/empty argv) OR (execv/execve alternation); distinct by the sequence of step shapes")

SEP = b"\x1f"
# (limits above PATH_MAX too: a path is an ordinary string to the library, and paths longer than 4096 bytes are logged before the kernel rejects them)
LIMS = [255, 256, 300, 2047, 4096, 4097, 16384, 100000]


def strategy():
    @st.composite
    def argv_s(draw, L):
        k = draw(st.sampled_from(["null", "empty", "plain", "plain", "emptystr", "ctrl", "near", "far", "many", "lastempty"]))
        if k == "null":
            return None
        if k == "empty":
            return []
        if k == "plain":
            return draw(st.lists(gen.text_bytes(0, 12), min_size=1, max_size=6))
        if k == "emptystr":
            return draw(st.lists(st.sampled_from([b"", b"", b"a", b" "]), min_size=1, max_size=4))
        if k == "lastempty":
            return draw(st.lists(gen.text_bytes(1, 20), min_size=1, max_size=3)) + [b""]
        if k == "ctrl":
            return draw(st.lists(gen.bytes_nonul(0, 16), min_size=1, max_size=5))
        if k == "near":
            n = max(0, L + draw(st.sampled_from([-3, -2, -1, 0, 1, 2, 3])))
            parts = draw(st.integers(1, 3))
            if parts == 1:
                return [b"n" * n]
            a = draw(st.integers(0, n))
            return [b"p" * a, b"q" * max(0, n - a - 1)]
        if k == "far":
            n = draw(st.sampled_from([2 * L, L + 1000, 70000, 1 << 20]))
            return [b"head", (draw(gen.text_bytes(1, 4)) * (n // 1 + 1))[:n]]
        n = draw(st.sampled_from([100, 1000, 5000]))
        return ("R", n, draw(gen.text_bytes(0, 6)))

    @st.composite
    def step(draw, L):
        k = draw(st.sampled_from(["call"] * 8 + ["thread", "limit", "rmcwd"]))
        if k == "limit":
            return {"op": "limit", "L": draw(st.sampled_from(LIMS))}
        if k == "rmcwd":
            return {"op": "rmcwd"}
        path = draw(st.one_of(st.just(b"/bin/true"), gen.text_bytes(1, 30).map(lambda b: b"/" + b),
                              gen.bytes_nonul(0, 20).map(lambda b: b.replace(SEP, b"_")),
                              st.sampled_from([L - 1, L, L + 1, 3 * L]).map(lambda n: b"/" + b"f" * max(0, n - 1))))
        return {"op": k, "kind": draw(st.sampled_from(["v", "e"])), "path": path, "argv": draw(argv_s(L))}

    @st.composite
    def case(draw):
        L = draw(st.sampled_from(LIMS))
        n = draw(st.integers(2, 12))
        steps = []
        cur = L
        for _ in range(n):
            s = draw(step(cur))
            if s["op"] == "limit":
                cur = s["L"]
            steps.append(s)
        # half of the histories put a data source in front whose value depends on the working directory only (and which FAILS once
        # that directory has been removed): whatever it yields, it is the same for all calls made in the same directory
        return {"L0": L, "steps": steps, "cwdfirst": draw(st.booleans())}
    return case()


def ini_for(out, L, cwdfirst=False):
    return gen.render_ini([(b"output", b"file:" + out.encode() + b"/log"),
                           (b"message_format", (b"%{cwd}" + SEP if cwdfirst else b"") + b"%{filename}" + SEP + b"%{cmdline}"),
                           (b"datasource_message_max_length", str(L).encode()),
                           (b"log_message_max_length", b"1048575")])


def run_variant(env, variant, c):
    d = env.driver(variant)
    out = d.out
    cf = c.get("cwdfirst", False)
    ops = [drv.op("W", "log", out + "/log"), drv.op("C", ini_for(out, c["L0"], cf)), drv.op("H", out)]
    expect = []
    L = c["L0"]
    epoch = 0
    for s in c["steps"]:
        if s["op"] == "limit":
            L = s["L"]
            ops.append(drv.op("C", ini_for(out, L, cf)))
            continue
        if s["op"] == "rmcwd":
            # the process changes into a fresh directory and removes it: getcwd() fails from now on
            epoch += 1
            name = "gone-%s-%d" % (variant, epoch)
            ops += [drv.op("H", out), drv.op("h", name.encode()), drv.op("u", out + "/" + name)]
            continue
        if s["op"] == "thread" and variant.startswith("nts"):
            continue
        ops.append(drv.op("x", out + "/log"))
        if s["op"] == "thread":
            ops.append(drv.op("Z", 1, 0))
            ops.append(drv.op_exec(s["kind"], s["path"], s["argv"], [b"A=1"], ret=-1, err=2, tno=0, callno=len(expect)))
        else:
            ops.append(drv.op_exec(s["kind"], s["path"], s["argv"], [b"A=1"], ret=-1, err=2))
        ops.append(drv.op("G"))
        expect.append((s, L, epoch))
    res = d.scenario(ops)
    reports = d.sanitizer_reports()
    if not res.clean:
        raise Failure("[%s] process crashed or hung during the history" % variant,
                      {"result": res.describe(), "sanitizer": [r[:2500] for r in reports[:1]]}, key="crash")
    Gs = res.of("G")
    if len(Gs) != len(expect):
        raise Failure("[%s] %d of %d calls completed" % (variant, len(Gs), len(expect)), {"result": res.describe()}, key="incomplete")
    fmt = b"%{filename}" + SEP + b"%{cmdline}"
    cwd_fields = {}
    for i, ((s, L, epoch), g) in enumerate(zip(expect, Gs)):
        content = drv.parse_dump(g)["log"][2]
        argv = drv.vec_list(s["argv"])
        fctx = model.FormatCtx(s["path"], argv, None)
        record = None
        if content is not None:
            if not content.endswith(b"\n"):
                raise Failure("[%s] step %d: record not newline-terminated" % (variant, i), {"tail": content[-40:]}, key="framing")
            record = content[:-1]
            if cf:
                cwdf, sep_, record = record.partition(SEP)
                if not sep_:
                    raise Failure("[%s] step %d: record lacks the field separator" % (variant, i), {"record_head": content[:200]}, key="framing")
                first = cwd_fields.setdefault(epoch, (i, cwdf))
                if first[1] != cwdf:
                    raise Failure("[%s] step %d: %%{cwd} differs from what step %d logged in the same working directory%s" % (
                                  variant, i, first[0], " (removed directory: the data source fails)" if epoch else ""),
                                  {"this_call": cwdf[:300], "earlier_call": first[1][:300]}, key="cwd-field")
        bad = model.check_expansion(record, fmt, fctx, L, 1048575)
        if bad:
            raise Failure("[%s] step %d (%s, argv %s): %s" % (variant, i, s["op"], gen.vec_class(s["argv"]), bad[0]),
                          {"record_len": None if record is None else len(record), "record_head": (record or b"")[:200],
                           "record_tail": (record or b"")[-120:]},
                          {"expected_len": None if bad[1] is None else len(bad[1]), "expected_head": (bad[1] or b"")[:200],
                           "expected_tail": (bad[1] or b"")[-120:]}, key="record")


def evaluate(env, c):
    for v in env.builds:
        run_variant(env, v, c)


def shape(s):
    if s["op"] == "limit":
        return "L%d" % s["L"]
    if s["op"] == "rmcwd":
        return "X"
    a = s["argv"]
    n = -1 if a is None else (0 if (not isinstance(a, tuple) and len(a) == 0) else
                              (a[1] * (len(a[2]) + 1) if isinstance(a, tuple) else sum(len(x) + 1 for x in a)))
    size = "N" if n < 0 else ("0" if n == 0 else ("s" if n < 200 else ("m" if n < 5000 else "l")))
    return s["op"][0] + s["kind"] + size


def classify(c):
    calls = [s for s in c["steps"] if s["op"] not in ("limit", "rmcwd")]
    sh = [shape(s) for s in c["steps"]]
    def tot(s):
        a = drv.vec_list(s["argv"])
        return len(s["path"]) if not a else sum(len(x) + 1 for x in a)
    long_short = any(tot(a) > 2 * tot(b) + 50 for a, b in zip(calls, calls[1:]))
    to_null = any(a["argv"] not in (None, []) and b["argv"] in (None, []) for a, b in zip(calls, calls[1:]))
    alt = any(a["kind"] != b["kind"] for a, b in zip(calls, calls[1:]))
    nontriv = long_short or to_null or alt
    cls = []
    if long_short:
        cls.append("long->short")
    if to_null:
        cls.append("nonnull->null-argv")
    if alt:
        cls.append("execv<->execve")
    if any(s["op"] == "thread" for s in c["steps"]):
        cls.append("second-thread")
    if any(s["op"] == "limit" for s in c["steps"]):
        cls.append("limit-change")
    if any(s["op"] == "rmcwd" for s in c["steps"]):
        cls.append("working-directory-removed")
        if c.get("cwdfirst"):
            cls.append("working-directory-removed+cwd-field")
    cls.append("steps:%d" % len(c["steps"]))
    return (tuple(sh) if nontriv else None), cls


def sample(c):
    def short(s):
        if s["op"] in ("limit", "rmcwd"):
            return s
        a = s["argv"]
        if isinstance(a, list):
            a = [x if len(x) < 40 else x[:12] + b"...(%d)" % len(x) for x in a[:8]]
        p = s["path"] if len(s["path"]) < 40 else s["path"][:12] + b"...(%d)" % len(s["path"])
        return {"op": s["op"], "kind": s["kind"], "path": p, "argv": a}
    return {"L0": c["L0"], "steps": [short(s) for s in c["steps"]]}


def _k(kind, path, argv, op="call"):
    return {"op": op, "kind": kind, "path": path, "argv": argv}


FIXED = [
    {"L0": 2047, "steps": [_k("e", b"/bin/long", [b"first", b"Z" * 3000]), _k("v", b"/bin/short", [b"second", b""]), _k("e", b"/bin/n", None)]},
    {"L0": 255, "steps": [_k("e", b"/x", [b""]), _k("v", b"/y", [b"", b""]), _k("e", b"/z", []), _k("v", b"/100%d", [b"date", b"+%d", b"100%"])]},
    {"L0": 255, "steps": [_k("v", b"/a", [b"a" * 255]), _k("e", b"/b", [b"b" * 254, b"x"]), _k("e", b"/c", [b"c" * 256]), {"op": "limit", "L": 300},
                          _k("e", b"/d", [b"d" * 299]), _k("e", b"/e", [b"e"], op="thread")]},
]


def main():
    ctx = Ctx(PID, "exploration", RULE)
    bs = ctx.run.build_many(["ts-asan", "nts-asan"])
    builds = {b["name"]: b for b in bs}
    ctx.assumptions = ["a truncated value may be any prefix with length in [L-8, L]",
                       "second-thread steps are skipped in the non-thread-safe build (single-threaded use only)"]
    nw, per = (4, 250) if ctx.quick else (16, 2500)
    pbt.run(ctx, builds, strategy, evaluate, classify, nw, per, sample=sample, fixed_cases=FIXED)
    ctx.finish()


if __name__ == "__main__":
    main_wrapper(main)
