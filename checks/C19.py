#!/usr/bin/env python3-vt
"""C19 -- snoopyctl disable removes only its own entry."""
import os
import sys

sys.path.insert(0, os.path.join(os.path.dirname(os.path.abspath(__file__)), "..", "lib"))

import model
import preload
import C18
from common import Failure, main_wrapper

PID = "C19"
RULE = ("same exhaustively enumerated (<=3 quick / <=4 thorough lines over the 12-line alphabet x final newline) and Hypothesis-"
        "generated ld.so.preload contents as C18, with the library's entry at every position (first, middle, last, only line, "
        "without final newline, followed by a comment, sharing its line with other entries). Each state: real `snoopyctl "
        "disable`, judged by a validity predicate (refusal/absence => untouched; otherwise every other line byte-identical and "
        "in order, library tokens = old tokens minus the entry, entry gone), then the enable/disable round trip for contents "
        "that are empty or newline-terminated and do not mention the library. non-trivial = content with a comment mentioning the "
        "library, a near-miss path, an own entry with trailing text (blank, comment, shared line), CR-LF or a missing final "
        "newline; distinct by content")


def evaluate_content(ctl, content, closed=(), fstate=None):
    P = ctl.P
    old = ctl.subst(content)
    # the file may be a symbolic link with a relative target (commands run from another directory) or last changed days ago
    ctl.put(old, symlink=(fstate == "symlink"), old_mtime=(fstate == "oldmtime"))
    old_eff = old or b""
    # the command may be started without some of its standard descriptors (`snoopyctl ... >&-`): the file must come out the same
    rc, out, err = ctl.run("disable", closed=closed)
    if rc < 0 or rc in (134, 139):
        raise Failure("snoopyctl disable crashed", {"status": rc, "stderr": err[-1500:]}, key="crash")
    new = ctl.get()
    new_eff = new or b""
    bad = model.disable_check(old_eff, new_eff, rc, P)
    if bad:
        raise Failure("`disable`: " + bad, {"old": old, "new": new, "exit": rc}, None, key="disable")
    if ctl.stray_files():
        raise Failure("`disable` left temporary files next to ld.so.preload", {"files": ctl.stray_files()}, key="stray")
    if (old_eff == b"" or old_eff.endswith(b"\n")) and model.LIBNAME not in old_eff:
        ctl.put(old)
        r1, _, _ = ctl.run("enable")
        mid = ctl.get()
        r2, _, _ = ctl.run("disable")
        back = ctl.get() or b""
        if r1 != 0 or r2 != 0 or back != old_eff:
            raise Failure("disable right after enable does not restore the original content",
                          {"original": old, "after_enable": mid, "after_disable": back, "exits": [r1, r2]}, None, key="roundtrip")


def evaluate(env, c):
    if not hasattr(env, "ctl"):
        env.ctl = preload.Ctl(next(iter(env.builds.values())), os.path.join(env.run.dir, "ctl-%d" % os.getpid()))
    evaluate_content(env.ctl, c["content"], tuple(c.get("closed", ())), c.get("fstate"))


def main():
    C18._EX["evalenv"] = evaluate
    C18.main(PID, RULE, evaluate_content)


if __name__ == "__main__":
    main_wrapper(main)
