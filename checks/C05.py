#!/usr/bin/env python3-vt
"""C05 -- message format expansion is exact and length-bounded (message, syslog ident, output path)."""
import os
import re
import sys

sys.path.insert(0, os.path.join(os.path.dirname(os.path.abspath(__file__)), "..", "lib"))
from hypothesis import strategies as st

import drv
import gen
import model
import pbt
from common import Ctx, Failure, main_wrapper

PID = "C05"
RULE = ("Hypothesis grammar over format pieces (literals with stray meta characters, known/unknown/failing/empty/"
        "nested/unterminated tags, tag+argument lengths 0..1000), both limits drawn from boundary sets and uniformly in "
        "[255,1048575], data-source outputs steered to L_ds+{-1,0,1} and totals to L_log+{-1,0,1} through env/argv "
        "lengths, tags much longer than their output, either order of limit and format options, caller errno 0/ERANGE/EINTR/..; targets: message_format (file record), syslog_ident (devlog datagram), output path template. "
        "non-trivial = at least 2 tags AND (an error path OR a length within 2 of a limit OR stray meta characters); "
        "distinct by (target, piece-kind sequence, which limit is approached, error kinds)")

DET = [b"snoopy_literal", b"env", b"cmdline", b"filename", b"failure", b"noop", b"snoopy_version"]
LIMITS = [255, 256, 257, 300, 1023, 1024, 2047, 4095, 4096, 16383, 65535, 1048575]
VERSION = b""
ALLSRC = set(s.encode() for s in model.ALL_SOURCES)


def unknown_name(draw):
    n = draw(st.one_of(gen.ident_bytes(0, 12), st.sampled_from([b"", b"CMDLINE", b"cmdlinex", b"env ", b"%", b"{", b"a b"]),
                       gen.text_bytes(0, 200)))
    n = n.replace(b"}", b"").replace(b":", b"").replace(b"\n", b"")
    if n in ALLSRC:
        n += b"_"
    return n


@st.composite
def piece(draw):
    k = draw(st.sampled_from(["lit", "lit", "meta", "ds", "ds", "ds", "dsarg", "unknown", "fail", "nested", "empty", "longenv", "hibyte"]))
    if k == "hibyte":
        # literal text is bytes, not ASCII: UTF-8 sequences and stray bytes >= 0x80 (negative as plain char) are copied verbatim
        return ("lit", draw(st.sampled_from([b"\xc3\xa9", b"\xe2\x86\x92 ", b"\xff", b"\x80abc", b"\xf0\x9f\x98\x80", b"caf\xc3\xa9=", b"\xfe%"])))
    if k == "longenv":
        # a tag far longer than what it expands to: the FORMAT may exceed a limit that its expansion respects
        n = draw(st.sampled_from([60, 97, 98, 99, 100, 101, 200, 250, 400]))
        return ("tag", b"env", b"LN" + draw(st.sampled_from([b"a", b"b", b"c"])) * n)
    if k == "lit":
        return ("lit", draw(gen.text_bytes(0, 40, boundaries=(0, 1, 100, 300, 900))))
    if k == "meta":
        return ("lit", draw(st.sampled_from([b"%", b"%%", b"{", b"}", b":", b"%%{", b"% {", b"}%", b"{}", b"%}", b"$", b"%:"])))
    if k == "ds":
        return ("tag", draw(st.sampled_from([b"cmdline", b"filename", b"noop", b"snoopy_version"])), None)
    if k == "dsarg":
        name = draw(st.sampled_from([b"snoopy_literal", b"env", b"env", b"cmdline", b"noop"]))
        if name == b"env":
            arg = draw(st.sampled_from([b"V1", b"V2", b"V3", b"UNSET", b"", b"A=B"]))
        else:
            arg = draw(gen.text_bytes(0, 30, boundaries=(0, 1, 98, 99, 100, 101, 254, 255, 256, 900, 1000)))
            arg = arg.replace(b"}", b")")
        return ("tag", name, arg)
    if k == "unknown":
        return ("tag", unknown_name(draw), draw(st.one_of(st.none(), gen.ident_bytes(0, 8))))
    if k == "fail":
        return ("tag", b"failure", draw(st.one_of(st.none(), gen.ident_bytes(0, 8))))
    if k == "nested":
        return ("raw", draw(st.sampled_from([b"%{snoopy_literal:%{cmdline}}", b"%{%{noop}}", b"%{env:%{", b"%{cmdline",
                                             b"%{snoopy_literal:a:b:c}", b"%{:x}", b"%{}", b"%{snoopy_literal:}"])))
    return ("tag", b"", None)


def render_piece(p):
    if p[0] == "lit" or p[0] == "raw":
        return p[1]
    if p[2] is None:
        return b"%{" + p[1] + b"}"
    return b"%{" + p[1] + b":" + p[2] + b"}"


def near(draw, L):
    return max(0, L + draw(st.sampled_from([-2, -1, 0, 1, 2, -1, 0, 1])))


def strategy():
    @st.composite
    def case(draw):
        target = draw(st.sampled_from(["message"] * 6 + ["ident"] * 2 + ["path"]))
        pieces = draw(st.lists(piece(), min_size=0, max_size=6))
        fmt = b"".join(render_piece(p) for p in pieces)
        if target == "path":
            fmt = fmt.replace(b"/", b"_")
        fmt = gen.make_safe(fmt)[:980]
        # limits
        l_ds = draw(st.one_of(st.sampled_from(LIMITS), st.integers(255, 1048575)))
        l_log = draw(st.one_of(st.sampled_from(LIMITS), st.integers(255, 1048575)))
        if draw(st.integers(0, 7)) == 0:
            # literal text around / above the data-source limit, in front of a tag (only L_log may cut it)
            l_ds = draw(st.sampled_from([255, 256, 257, 300, 600]))
            n = l_ds + draw(st.sampled_from([-1, 0, 1, 2, 3, 50, 300]))
            lit = draw(gen.text_bytes(n, n)).replace(b"%", b"p").replace(b";", b",")
            tail = draw(st.sampled_from([b"%{noop}", b"%{filename}", b"%{bogus}", b"%{failure}", b"%{snoopy_literal:x}Z"]))
            fmt = gen.make_safe(lit + tail)[:980]
            if target == "path":
                fmt = fmt.replace(b"/", b"_")
        if target == "ident":
            eff_ds, eff_log = 255, 255
        elif target == "path":
            eff_ds, eff_log = 4095, 4095
        else:
            eff_ds, eff_log = l_ds, l_log
        # inputs: env V1..V3, argv, path -- steered towards the limits
        steer = draw(st.sampled_from(["none", "ds", "ds", "log", "log", "both"]))
        vals = {}
        for v in (b"V1", b"V2", b"V3"):
            n = draw(st.sampled_from([0, 1, 5, 40]))
            if steer in ("ds", "both") and draw(st.booleans()):
                n = near(draw, eff_ds)
                if draw(st.sampled_from([False, False, True])):
                    # far above the data-source limit, around / above the message limit as well
                    n = min(1100000, draw(st.sampled_from([2 * eff_ds, eff_ds + 1000, near(draw, eff_log), eff_log + 700, 2 * eff_log])))
            vals[v] = draw(gen.text_bytes(n, n)) if n <= 64 else (b"e" * n)
        if target == "path":
            vals = {k: v.replace(b"/", b"_") for k, v in vals.items()}
        argv = draw(st.one_of(st.none(), st.lists(gen.text_bytes(0, 12), max_size=4)))
        path = b"/" + draw(gen.text_bytes(1, 20)).replace(b"/", b"_")
        if steer in ("ds", "both") and draw(st.integers(0, 2)) == 0:
            n = near(draw, eff_ds)
            if draw(st.booleans()):
                argv = [b"a" * n]
            else:
                path = b"/" + b"p" * max(0, n - 1)
        environ = [k + b"=" + v for k, v in vals.items()] + [b"A=B=c", b"X=1"]
        for m in set(re.findall(rb"%\{env:(LN[abc]+)\}", fmt)):
            environ.append(m + b"=" + draw(st.sampled_from([b"alice", b"", b"j42", b"v" * 30])))
        if b"%{env:LN" in fmt and draw(st.booleans()):
            l_log = draw(st.sampled_from([255, 256, 300, 400]))      # limit below the length of the format text itself
        c = {"target": target, "fmt": fmt, "l_ds": l_ds, "l_log": l_log, "environ": environ, "argv": argv,
             "path": path, "steer": steer,
             # the order of the options in the file and the caller's errno at the time of the call are inputs as well
             "limits_first": draw(st.booleans()), "pre_errno": draw(st.sampled_from([0, 0, 0, 34, 34, 4, 22, 12]))}
        if target == "path" and draw(st.sampled_from([False, True])):
            # the directory part comes from a data source as well (file:%{env:LOGDIR}/...): an existing directory 200..3000 bytes deep --
            # the path template has its own fixed limits, whatever datasource_message_max_length says
            c["deep"] = draw(st.sampled_from([1, 2, 2, 5, 12, 14]))
            c["l_ds"] = draw(st.sampled_from([255, 255, 300, 1000, 2047, c["l_ds"]]))
        if steer in ("log", "both"):
            # make the ideal total land on eff_log + delta by stretching V3 (if the format uses it) or argv
            c = stretch_to_total(draw, c, eff_ds, eff_log)
        return c
    return case()


def fctx_of(c):
    return model.FormatCtx(c["path"], c["argv"], c["environ"], version=VERSION)


def stretch_to_total(draw, c, eff_ds, eff_log):
    fmt = c["fmt"]
    want = near(draw, eff_log)
    use = None
    if b"%{env:V3}" in fmt:
        use = "V3"
    elif b"%{cmdline}" in fmt:
        use = "argv"
    if use is None:
        return c
    pieces = model.expand_pieces(fmt, fctx_of(c))
    if any(p[0] == "unmodelled" for p in pieces):
        return c
    cur = len(model.render(pieces, eff_ds))
    cnt = fmt.count(b"%{env:V3}") if use == "V3" else fmt.count(b"%{cmdline}")
    if cnt != 1:
        return c
    if use == "V3":
        curlen = len(model.getenv_model(c["environ"], b"V3") or b"")
    else:
        curlen = len(model.cmdline_model(c["path"], c["argv"]))
    newlen = curlen + (want - cur)
    if newlen < 0 or newlen > eff_ds or newlen > 1048600:
        return c
    c = dict(c)
    if use == "V3":
        c["environ"] = [e for e in c["environ"] if not e.startswith(b"V3=")] + [b"V3=" + b"t" * newlen]
        if c["target"] == "path":
            pass
    else:
        c["argv"] = [b"c" * newlen] if newlen > 0 else c["argv"]
    return c


def build_cfg(c, out):
    o = out.encode()
    opts = []
    if c["target"] == "message":
        opts += [(b"output", b"file:" + o + b"/log"), (b"message_format", c["fmt"])]
    elif c["target"] == "ident":
        opts += [(b"output", b"devlog"), (b"message_format", b"M"), (b"syslog_ident", c["fmt"])]
    else:
        opts += [(b"output", b"file:" + o + b"/P" + c["fmt"]), (b"message_format", b"M")]
    lim = [(b"datasource_message_max_length", str(c["l_ds"]).encode()),
           (b"log_message_max_length", str(c["l_log"]).encode())]
    opts = lim + opts if c.get("limits_first") else opts + lim
    return gen.render_ini(opts)


def evaluate(env, c):
    d = env.driver(c.get("variant", "ts-asan"))
    out = d.out
    ini = build_cfg(c, out)
    if any(len(l) > 1022 for l in ini.split(b"\n")):
        return      # beyond the config line limit: outside C05's domain (C02 covers it)
    # fresh directory for path-template cases
    ops = [drv.op("x", out + "/log")]
    pdir = None
    if c["target"] == "path":
        pdir = os.path.join(out, "pt")
        import shutil
        shutil.rmtree(pdir, ignore_errors=True)
        os.makedirs(pdir)
        os.chmod(pdir, 0o777)
        ini = ini.replace(out.encode() + b"/P", pdir.encode() + b"/P")
        if c.get("deep"):
            deep = pdir + "".join("/" + "dir%02d" % k + "x" * 194 for k in range(c["deep"]))
            os.makedirs(deep)
            os.chmod(deep, 0o777)
            ini = ini.replace(b"file:" + pdir.encode() + b"/P", b"file:%{env:LOGDIR}/P")
            c = dict(c, environ=list(c["environ"]) + [b"LOGDIR=" + deep.encode()])
            pdir = deep
        if any(len(l) > 1022 for l in ini.split(b"\n")):
            return
    ops += [drv.op("K", "devlog", out + "/devlog.sock", 1), drv.op("W", "log", out + "/log"),
            drv.op("C", ini), drv.op_env(c["environ"]), drv.op("e", c.get("pre_errno", 0)),
            # the same call twice: templates must expand from scratch every time
            drv.op_exec("e", c["path"], c["argv"], [], ret=-1, err=2), drv.op_exec("v", c["path"], c["argv"], [], ret=-1, err=2), drv.op("G")]
    res = d.scenario(ops)
    reports = d.sanitizer_reports()
    if not res.clean or not res.of("T"):
        raise Failure("wrapped call crashed or hung while expanding the format",
                      {"result": res.describe(), "sanitizer": [r[:2500] for r in reports[:1]]}, key="crash")
    dump = drv.parse_dump(res.of("G")[-1])
    fctx = fctx_of(c)
    if c["target"] == "message":
        content = dump["log"][2]
        if content is None:
            record = None
        else:
            if not content.endswith(b"\n"):
                raise Failure("file record not newline-terminated", {"tail": content[-50:]}, key="framing")
            half = len(content) // 2
            if len(content) % 2 or content[:half] != content[half:]:
                raise Failure("two identical calls produced different records", {"len": len(content), "head": content[:200]}, key="repeat")
            record = content[:half - 1]
        bad = model.check_expansion(record, c["fmt"], fctx, c["l_ds"], c["l_log"])
        if bad:
            raise Failure("message: " + bad[0], {"record_len": None if record is None else len(record),
                                                 "record_head": (record or b"")[:300], "record_tail": (record or b"")[-80:]},
                          {"expected_len": None if bad[1] is None else len(bad[1]), "expected_head": (bad[1] or b"")[:300],
                           "expected_tail": (bad[1] or b"")[-80:]}, key="message")
    elif c["target"] == "ident":
        dg = dump["devlog"][2]
        if len(dg) != 2 or dg[0] != dg[1]:
            raise Failure("devlog: expected two identical datagrams for two identical calls, got %d" % len(dg), {"datagrams": [x[:200] for x in dg[:3]]}, key="ident-count")
        m = re.match(rb"^<(\d+)>(.*)\[(\d+)\]: M$", dg[0], re.S)
        if not m:
            raise Failure("devlog datagram not of the form <pri>ident[pid]: message", {"datagram": dg[0][:400]}, key="ident-frame")
        ident = m.group(2)
        bad = model.check_expansion(ident, c["fmt"], fctx, 255, 255)
        if bad:
            raise Failure("syslog ident: " + bad[0], {"ident_len": len(ident), "ident": ident[:400]},
                          {"expected": (bad[1] or b"")[:400]}, key="ident")
    else:
        names = sorted(os.listdir(pdir))
        pieces = model.expand_pieces(c["fmt"], fctx)
        ideal = model.render(pieces) if not any(p[0] == "unmodelled" for p in pieces) else None
        full = (pdir.encode() + b"/P" + ideal) if ideal is not None else None
        if ideal is not None and b"/" not in ideal and b"\0" not in ideal and len(b"P" + ideal) <= 255 and len(full) <= 4095 \
                and model.max_ds_len(pieces) <= 4095:
            want = [os.fsdecode(b"P" + ideal)]
            if names != want:
                raise Failure("output path template: file created under a different name",
                              {"created": names}, {"expected": want}, key="path")
            with open(os.path.join(pdir, names[0]), "rb") as f:
                if f.read() != b"M\nM\n":
                    raise Failure("output path template: record content differs", None, key="path-content")
        else:
            # not creatable / beyond limits: only require that nothing longer than the limit was used
            for n in names:
                if len(pdir) + 1 + len(os.fsencode(n)) > 4095:
                    raise Failure("output path longer than PATH_MAX-1", {"created": names}, key="path-len")


def classify(c):
    fmt = c["fmt"]
    pieces = model.expand_pieces(fmt, fctx_of(c))
    ntags = fmt.count(b"%{")
    kinds = "".join({"lit": "L", "ds": "D", "err": "E", "dserr": "F", "unmodelled": "U"}[p[0]] for p in pieces)
    err = any(p[0] in ("err", "dserr") for p in pieces)
    meta = bool(re.search(rb"%(?!\{)|(?<!%)\{|\}|:", re.sub(rb"%\{[^}]*\}", b"", fmt)))
    eff_ds, eff_log = (255, 255) if c["target"] == "ident" else ((4095, 4095) if c["target"] == "path" else (c["l_ds"], c["l_log"]))
    nearlim = []
    try:
        if abs(model.max_ds_len(pieces) - eff_ds) <= 2:
            nearlim.append("ds")
        if abs(len(model.render(pieces, eff_ds)) - eff_log) <= 2:
            nearlim.append("log")
    except ValueError:
        pass
    nontriv = ntags >= 2 and (err or nearlim or meta)
    key = (c["target"], kinds, tuple(nearlim), err) if nontriv else None
    cls = ["target:" + c["target"], "steer:" + c["steer"]] + ["near:" + n for n in nearlim]
    if err:
        cls.append("error-path")
    if meta:
        cls.append("stray-meta")
    if ntags >= 2:
        cls.append("tags>=2")
    if c.get("limits_first"):
        cls.append("limits-before-format")
    if c.get("deep"):
        cls.append("path-directory-from-data-source:%s" % ("<=255" if c["deep"] == 1 else ("<=1000" if c["deep"] <= 5 else ">2000")))
    if c.get("pre_errno"):
        cls.append("caller-errno-set")
    if any(b >= 0x80 for b in fmt):
        cls.append("non-ascii-literal")
        if fmt[:1] >= b"\x80":
            cls.append("format-starts-with-non-ascii-byte")
    if b"%{env:LN" in fmt:
        cls.append("long-tag-short-output")
        if len(fmt) > eff_log:
            cls.append("format-text-longer-than-L_log")
    return key, cls


def sample(c):
    d = dict(c)
    d["environ"] = [e if len(e) < 80 else e[:20] + b"...(%d bytes)" % len(e) for e in c["environ"]]
    if c["argv"]:
        d["argv"] = [a if len(a) < 80 else a[:20] + b"...(%d bytes)" % len(a) for a in c["argv"]]
    if len(c["path"]) > 80:
        d["path"] = c["path"][:20] + b"...(%d bytes)" % len(c["path"])
    return d


def _fx(target, fmt, l_ds=2047, l_log=16383, environ=(), argv=(b"prog", b"arg"), path=b"/bin/prog"):
    return {"target": target, "fmt": fmt, "l_ds": l_ds, "l_log": l_log, "environ": list(environ) + [b"X=1"], "argv": list(argv) if argv is not None else None,
            "path": path, "steer": "fixed"}


# saved regression cases (run first, outside Hypothesis): the shrunk inputs of the defects this check found / must keep finding
FIXED = [
    _fx("message", b"%{snoopy_literal:" + b"A" * 150 + b"}"),                                   # tag of 100 bytes or more
    _fx("message", b"L" * 300 + b"%{noop}tail", l_ds=255),                                        # literal longer than L_ds in front of a tag
    _fx("message", b"<%{env:V}>", l_ds=255, environ=[b"V=" + b"v" * 256]),                        # data source output L_ds+1
    _fx("message", b"%{env:V}", l_ds=1000, l_log=255, environ=[b"V=" + b"v" * 255]),              # exactly L_log
    _fx("message", b"A%{env:V}Z", l_ds=1000, l_log=300, environ=[b"V=" + b"v" * 298]),            # pieces summing to exactly L_log
    _fx("message", b"x" * 256, l_log=255),                                                        # L_log+1
    _fx("message", b"A%{env:V}Z", l_ds=255, l_log=1000, environ=[b"V=" + b"v" * 2000]),           # raw output beyond L_log, cut output fits
    _fx("message", b"%{snoopy_literal:abc}|%{noop}|%{}"),                                         # stale buffer / empty name
    _fx("path", b"p%{snoopy_literal:X}"),                                                         # path template, two calls
    _fx("ident", b"id-%{env:V}", environ=[b"V=" + b"i" * 200]),
    dict(_fx("message", b"u=%{env:LN" + b"a" * 200 + b"} j=%{env:LN" + b"b" * 200 + b"} end", l_log=255,
             environ=[b"LN" + b"a" * 200 + b"=alice", b"LN" + b"b" * 200 + b"=j42"]), limits_first=True, pre_errno=34),
]


def main():
    global VERSION
    ctx = Ctx(PID, "exploration", RULE)
    b = ctx.run.build("ts-asan")
    cfgh = open(os.path.join(b["src"], "config.h")).read()
    VERSION = re.search(r'#define PACKAGE_VERSION "([^"]*)"', cfgh).group(1).encode()
    ctx.assumptions = ["only deterministic data sources are modelled (snoopy_literal, env, cmdline, filename, failure, noop, "
                       "snoopy_version); after an unknown-data-source error both 'stop' and 'continue' are accepted",
                       "a truncated data-source output may be any prefix with length in [L_ds-8, L_ds]",
                       "config lines longer than 1022 bytes are outside the domain (C02)"]
    nw, per = (4, 1300) if ctx.quick else (16, 9500)
    pbt.run(ctx, {"ts-asan": b, "nts-asan": ctx.run.build("nts-asan")}, strategy, evaluate, classify, nw, per, sample=sample, fixed_cases=FIXED,
            variants=["ts-asan", "ts-asan", "nts-asan"])
    ctx.finish()


if __name__ == "__main__":
    main_wrapper(main)
