#!/usr/bin/env python3-vt
"""C17 -- file records are appended whole; concurrent writers never interleave."""
import os
import random
import re
import sys
import threading

sys.path.insert(0, os.path.join(os.path.dirname(os.path.abspath(__file__)), "..", "lib"))

import drv
import gen
import trace
from common import Ctx, Counters, Failure, confirm, main_wrapper, run_workers, load_replay

PID = "C17"
RULE = ("(a) traced single calls: record sizes (message + newline, so >= 2 bytes) from boundary sets (2, 4095/4096/4097, 8191/8192, 16383/16384/16385, 65536, 131072, "
        "1048575, +-1) and seeded random sizes x pre-existing file states (absent, empty, no final newline, 1 MiB, path being a symbolic link to the file, dangling link, file owned by somebody else than the caller) x outputs file / "
        "file with path template / devtty / devnull; from the syscall log: the log descriptor is opened with O_APPEND and without "
        "O_TRUNC, exactly one data-transferring call is made on it whose size is the whole record, no ftruncate / positional write, and the "
        "file afterwards is old content + record (every second size has line feeds INSIDE the message: still one record, one write); every call made on the "
        "log descriptor, and its open, failing once with EIO/EINTR(/ENOSPC/EAGAIN): the file is the old content or the old content plus the record once. (b) stress: 2..16 concurrent writers (processes x threads) append uniquely "
        "numbered records of 1..70000 bytes to one file (some rounds with a 150..400 us interval timer in every writer, handler without SA_RESTART); the file must be a permutation of whole records, none lost. (c) devtty output with a controlling terminal "
        "that is read only after 0.8..1.5 s: 60..2000 records must all arrive whole, once, in order. non-trivial "
        "(a) = record > 4096 bytes or pre-existing content without final newline or file absent; distinct by (size, state, output)")

SIZES = [2, 3, 100, 4094, 4095, 4096, 4097, 8191, 8192, 8193, 16382, 16383, 16384, 16385, 20000, 65535, 65536, 65537, 131072, 500000, 1048574, 1048575]
STATES = ["absent", "empty", "nonl", "big", "lines", "symlink", "dangling-symlink", "foreign-owner"]
DATA_CALLS = {"write", "writev", "pwrite64", "pwritev", "pwritev2", "sendto", "sendmsg", "sendfile", "splice"}
# lseek on an O_APPEND descriptor is harmless (stdio's fopen("a") issues one) and therefore allowed
FORBIDDEN = {"ftruncate", "pwrite64", "pwritev", "truncate", "fallocate"}


def plan_case(size, state, outk, out):
    path = out + "/c17.log"
    if outk == "file":
        output = b"file:" + path.encode()
    elif outk == "filetpl":
        output = b"file:" + out.encode() + b"/c17%{snoopy_literal:.}log"
    elif outk == "devnull":
        output = b"devnull"
        path = "/dev/null"
    else:
        output = b"devtty"
        path = "/dev/tty"
    return path, output


def make_body(msglen):
    """message bytes; every second length gets line feeds inside (a command line or environment value may well contain them: the
    record is then still ONE record, appended in one piece)"""
    if msglen % 2:
        return (b"0123456789abcdef" * (msglen // 16 + 1))[:msglen]
    return (b"first line\n\nthird line after an empty one\n0123456789abcde\n" * (msglen // 50 + 1))[:msglen]


def run_fault(os_, size, errno_):
    """every system call the library makes on the log descriptor (and the open itself) fails once with errno_: the file must afterwards
    be the old content or the old content plus the record ONCE -- never the record twice, never part of it"""
    out = os_.out
    path = out + "/c17f.log"
    msglen = size - 1
    body = make_body(msglen)
    old = b"earlier record\n"
    ini = gen.render_ini([(b"output", b"file:" + path.encode()), (b"message_format", b"%{env:M}"), (b"datasource_message_max_length", b"1048575"),
                          (b"log_message_max_length", b"1048575")])
    ops = [drv.op("C", ini), drv.op_env([b"M=" + body]), drv.op_exec("e", b"/bin/p", [b"p"], [], ret=-1, err=2)]

    def fresh():
        with open(path, "wb") as f:
            f.write(old)
    fresh()
    os_.write_scenario(ops)
    rc, events = os_.run_traced([], timeout=30)
    if rc != 0 or not [e for e in events if e.code == "T"]:
        raise Failure("wrapped call failed under the tracer (fault phase dry run)", {"rc": rc}, key="harness")
    calls, _ = os_.parse_log()
    fd, targets = None, []
    for c in [c for c in calls if c["phase"] == 1]:
        t = c["text"]
        if c["name"] in ("open", "openat", "creat") and ('"%s"' % path) in t:
            m = re.search(r"= (\d+)$", t)
            if m:
                fd = m.group(1)
                targets.append(c)
                continue
        if fd is not None:
            m = re.match(r"^(?:\d+\s+)?[a-z_0-9]+\((\d+)[,)]", t)
            if m and m.group(1) == fd:
                targets.append(c)
                if c["name"] == "close":
                    fd = None
    done = 0
    for c in targets:
        if c["name"] == "close":
            continue            # (an injected failure of close() leaks the descriptor by itself)
        fresh()
        inj = "%s:error=%s:when=%d" % (c["name"], errno_, c["ordinal"])
        rc, events = os_.run_traced(["-e", "inject=" + inj], timeout=30, log=False)
        if rc != 0 or not [e for e in events if e.code == "T"]:
            raise Failure("the exec call did not complete with %s (record of %d bytes)" % (inj, size), {"rc": rc}, key="fault-call")
        with open(path, "rb") as f:
            now = f.read()
        done += 1
        if now not in (old, old + body + b"\n"):
            raise Failure("log file is neither unchanged nor old content + the record once, after %s on the log descriptor (record of %d bytes)" % (inj, size),
                          {"len": len(now), "records_of_this_call": now.count(body[:40] if len(body) >= 40 else body + b"\n"), "tail": now[-80:]},
                          {"len_unchanged": len(old), "len_with_record": len(old) + len(body) + 1}, key="fault-content")
    return done


def run_single(os_, size, state, outk, shortwrite=False):
    out = os_.out
    path, output = plan_case(size, state, outk, out)
    msglen = size - 1            # record = message + newline
    if outk == "devtty":
        msglen = min(msglen, 1500)
    body = make_body(msglen)
    old = None
    if outk in ("file", "filetpl"):
        old = {"absent": None, "empty": b"", "nonl": b"previous line without newline", "big": b"x" * 1048576 + b"\n",
               "lines": b"l1\nl2\n", "symlink": b"first line\nsecond line\nthird\n", "dangling-symlink": None,
               "foreign-owner": b"written by the owner\n"}[state]
        target = path
        for p_ in (path, path + ".target"):
            try:
                os.unlink(p_)
            except FileNotFoundError:
                pass
        if state in ("symlink", "dangling-symlink"):
            # the configured path is a symbolic link to the real log file (e.g. /var/log/x.log -> /data/logs/x.log)
            target = path + ".target"
            os.symlink(target, path)
        if old is not None:
            with open(target, "wb") as f:
                f.write(old)
            os.chmod(target, 0o666)
    ini = gen.render_ini([(b"output", output), (b"message_format", b"%{env:M}"), (b"datasource_message_max_length", b"1048575"),
                          (b"log_message_max_length", b"1048575")])
    ops = []
    if outk == "devtty":
        ops += [drv.op("f"), drv.op("T")]
    ops += [drv.op("C", ini), drv.op_env([b"M=" + body])]
    if state == "foreign-owner" and outk in ("file", "filetpl"):
        # a shared log: owned by root, mode 0666; the call is made by an unprivileged user who does not own the file
        ops.append(drv.op("U", 65534, 65534, 65534, 65534, 65534, 65534))
    if shortwrite:
        # a genuine short write: the size limit lies in the middle of the record (the result file is written first: it is tiny)
        ops.append(drv.op("l", len(old or b"") + max(1, (msglen + 1) // 2)))
    ops.append(drv.op_exec("e", b"/bin/p", [b"p"], [], ret=-1, err=2))
    if shortwrite:
        ops.append(drv.op("l", 1 << 40))        # lift the limit again before the harness writes its result file
    os_.write_scenario(ops)
    rc, events = os_.run_traced(["-e", "trace=open,openat,creat,write,writev,pwrite64,pwritev,pwritev2,lseek,ftruncate,truncate,close,prctl,fallocate,sendto,dup,dup2,dup3,fcntl"],
                                timeout=30, follow=(outk == "devtty"))
    what = "record of %d bytes, output %s, file state %s" % (msglen + 1, outk, state)
    if rc != 0 or not [e for e in events if e.code == "T"]:
        raise Failure("wrapped call failed under the tracer (%s)" % what, {"rc": rc}, key="harness")
    calls, signals = os_.parse_log()
    if shortwrite:
        what += ", the write coming back short (RLIMIT_FSIZE in the middle of the record)"
    win = [c for c in calls if c["phase"] == 1]
    fd = None
    opened = None
    ondesc = []
    for c in win:
        t = c["text"]
        if c["name"] in ("open", "openat", "creat") and ('"%s"' % path) in t:
            m = re.search(r"= (\d+)$", t)
            if m:
                fd = m.group(1)
                opened = t
                continue
        if fd is not None:
            m = re.match(r"^(?:\d+\s+)?[a-z_0-9]+\((\d+)[,)]", t)
            if m and m.group(1) == fd:
                if c["name"] == "close":
                    fd = None
                    continue
                ondesc.append(c)
    if opened is None:
        raise Failure("log destination was never opened (%s)" % what, {"window": [c["text"][:120] for c in win][-12:]}, key="noopen")
    if "creat(" in opened or "O_APPEND" not in opened or "O_TRUNC" in opened:
        raise Failure("log file not opened for appending (%s)" % what, {"open": opened}, key="flags")
    data = [c for c in ondesc if c["name"] in DATA_CALLS]
    bad = [c for c in ondesc if c["name"] in FORBIDDEN]
    if bad:
        raise Failure("positioning / truncating call on the log descriptor (%s)" % what, {"calls": [c["text"][:150] for c in bad]}, key="seek")
    if shortwrite:
        # whatever the library does about the remainder, it must never cut or reposition what is already in the file
        if not any("= %d" % max(1, (msglen + 1) // 2) in c["text"] for c in data):
            raise Failure("harness: the write did not come back short (%s)" % what, {"calls": [c["text"][-40:] for c in data]}, key="harness")
        if outk in ("file", "filetpl"):
            with open(path, "rb") as f:
                now = f.read()
            if not now.startswith(old or b""):
                raise Failure("content already in the file changed after a short write (%s)" % what, {"head": now[:80]}, key="shortwrite-content")
        return
    if len(data) != 1 and not shortwrite:
        raise Failure("%d data-transferring calls on the log descriptor for one record (%s)" % (len(data), what),
                      {"calls": [re.sub(r'"[^"]*"\.*', '"..."', c["text"])[:120] for c in data][:6]}, key="writes")
    m = re.search(r"= (\d+)$", data[0]["text"]) if data else None
    if not shortwrite and (not m or int(m.group(1)) != msglen + 1):
        raise Failure("the single write does not carry the whole record (%s)" % what, {"call": re.sub(r'"[^"]*"\.*', '"..."', data[0]["text"])[:150]}, key="short")
    if outk in ("file", "filetpl"):
        with open(path, "rb") as f:
            now = f.read()
        want = (old or b"") + body + b"\n"
        if now != want:
            raise Failure("file is not old content + record (%s)" % what,
                          {"len": len(now), "head": now[:60], "tail": now[-60:]}, {"len": len(want), "tail": want[-60:]}, key="content")


_W = {}


def worker(args):
    idx, jobs = args
    ctx = _W["ctx"]
    local = Counters(ctx.known, idx)
    os_ = trace.OneShot(ctx.run, _W["build"], "w%d" % idx)
    fails = []
    for job in jobs:
        if job[1] == "FAULT":
            size, _, errno_ = job
            local.count((size, "fault", errno_), ["fault-on-log-descriptor:" + errno_, "size:" + ("<=4096" if size <= 4096 else ">4096")],
                        sample={"record_bytes": size, "each_call_on_the_log_descriptor_fails_with": errno_})
            try:
                n = run_fault(os_, size, errno_)
                local.extra["faults_injected_on_log_descriptor"] = local.extra.get("faults_injected_on_log_descriptor", 0) + n
            except Failure as f:
                if local.is_known(f.key):
                    local.known_hit(f.key, f.what)
                elif f.key == "harness":
                    local.inconclusive.append(f.what)
                elif not fails:
                    ok, last = confirm(lambda c: run_fault(os_, c[0], c[2]), job)
                    if ok:
                        fails.append({"case": {"size": size, "fault": errno_}, "what": last.what, "observed": last.observed, "expected": last.expected})
            continue
        size, state, outk = job[:3]
        sw = len(job) > 3
        nontriv = size > 4096 or state in ("nonl", "absent") or sw
        local.count((size, state, outk) if nontriv else None, ["out:" + outk, "state:" + state, "size:" + ("<=4096" if size <= 4096 else "<=64K" if size <= 65536 else ">64K")],
                    sample={"record_bytes": size, "file_state": state, "output": outk, "short_write": sw})
        try:
            run_single(os_, size, state, outk, sw)
        except Failure as f:
            if local.is_known(f.key):
                local.known_hit(f.key, f.what)
            elif f.key == "harness":
                local.inconclusive.append(f.what)
            elif not fails:
                ok, last = confirm(lambda c: run_single(os_, *c), (size, state, outk, sw))
                if ok:
                    fails.append({"case": {"size": size, "state": state, "out": outk, "shortwrite": sw}, "what": last.what, "observed": last.observed, "expected": last.expected})
    return local.export(), fails


# ------------------------------------------------------------------ stress
def stress(ctx, build, rounds, nproc, nthreads, ncalls, seed, timer_us=0):
    """nproc driver processes x nthreads threads x ncalls records each, all appending to one file."""
    shared = os.path.join(ctx.run.out, "shared")
    os.makedirs(shared, exist_ok=True)
    os.chmod(shared, 0o777)
    path = os.path.join(shared, "stress.log")
    drivers = [drv.Driver(ctx.run, build, timeout_ms=60000) for _ in range(nproc)]
    rng = random.Random(seed)
    viol = None
    total = 0
    try:
        for r in range(rounds):
            try:
                os.unlink(path)
            except FileNotFoundError:
                pass
            pre = b"pre-existing-%d\n" % r if r % 2 else None
            if pre is not None:
                with open(path, "wb") as f:
                    f.write(pre)
                os.chmod(path, 0o666)
            expected = set()
            scen = []
            for p in range(nproc):
                oarg = path.encode() if r % 2 == 0 else path.encode().replace(b"stress.log", b"stress%{snoopy_literal:.}lo%{snoopy_literal:g}")
                ini = gen.render_ini([(b"output", b"file:" + oarg), (b"message_format", b"%{cmdline}"),
                                      (b"datasource_message_max_length", b"1048575"), (b"log_message_max_length", b"1048575")])
                # (timer_us: every writer process has an interval timer whose handler was installed without SA_RESTART)
                ops = [drv.op("C", ini)] + ([drv.op("i", timer_us)] if timer_us else []) + [drv.op("Z", nthreads, 1)]
                for t in range(nthreads):
                    for k in range(ncalls):
                        n = rng.choice([1, 50, 200, 4000, 4096, 5000, 9000, 17000, 70000] if ncalls < 30 else [1, 20, 50, 200, 4097])
                        rec = b"ID:%d:%d:%d:%d:%d:" % (r, p, t, k, n) + bytes([97 + (p * 7 + t * 3 + k) % 26]) * n + b":END"
                        expected.add(rec)
                        ops.append(drv.op_exec("e", b"/bin/p", [rec], [], ret=-1, err=2, tno=t, callno=k))
                scen.append(ops)
            results = [None] * nproc
            def go(i):
                results[i] = drivers[i].scenario(scen[i])
            ths = [threading.Thread(target=go, args=(i,)) for i in range(nproc)]
            for t in ths:
                t.start()
            for t in ths:
                t.join()
            for res in results:
                if res is None or not res.clean:
                    return total, {"what": "stress writer crashed or hung", "observed": None if res is None else res.describe()}
            with open(path, "rb") as f:
                content = f.read()
            total += len(expected)
            if pre is not None:
                if not content.startswith(pre):
                    return total, {"what": "pre-existing content overwritten or truncated under concurrent writers", "observed": {"head": content[:80]}}
                content = content[len(pre):]
            lines = content.split(b"\n")
            if lines and lines[-1] == b"":
                lines.pop()
            got = {}
            for ln in lines:
                got[ln] = got.get(ln, 0) + 1
            broken = [ln for ln in got if ln not in expected]
            missing = [e for e in expected if e not in got]
            dup = [ln for ln, c in got.items() if c > 1 and ln in expected]
            if broken or missing or dup:
                return total, {"what": "log file is not a permutation of whole records after %d concurrent writers x %d threads" % (nproc, nthreads),
                               "observed": {"split_or_interleaved_lines": len(broken), "lost_records": len(missing), "duplicated": len(dup),
                                            "example": (broken[0][:80] + b"..." + broken[0][-40:]) if broken else (missing[0][:60] if missing else b"")}}
    finally:
        for d in drivers:
            d.close()
    return total, None


def stalled_terminal(ctx, build, ncalls, size, delay_ms):
    """devtty output while the terminal is not being read for a while: records pile up in the tty queue, the writers have to wait --
    every record must still arrive whole, once and in order."""
    d = drv.Driver(ctx.run, build, timeout_ms=60000)
    out = d.out
    try:
        # (limits above the record size: the default data-source limit of 2047 bytes would cut a 4000-byte command line by design)
        ini = gen.render_ini([(b"output", b"devtty"), (b"message_format", b"%{cmdline}"), (b"datasource_message_max_length", b"65535"),
                              (b"log_message_max_length", b"65535")])
        capture = out + "/tty-capture"
        ops = [drv.op("f"), drv.op("T", "lazy", delay_ms, capture), drv.op("C", ini)]
        want = []
        for k in range(ncalls):
            arg = (b"%05d-" % k) + b"r" * (size - 12)
            want.append(b"rec " + arg + b"\n")
            ops.append(drv.op_exec("e", b"/bin/rec", [b"rec", arg], [], ret=-1, err=2))
        ops.append(drv.op("y"))
        res = d.scenario(ops)
        case = {"stalled_terminal": True, "calls": ncalls, "record_bytes": size, "terminal_not_read_for_ms": delay_ms}
        ctx.count(("stalled-tty", ncalls, size), ["stalled-terminal"], sample=case)
        if res.timedout or not res.of("y"):
            ctx.violation(case, {"result": res.describe()}, None, "calls logging to a terminal that is read only after %d ms did not complete" % delay_ms)
            return
        try:
            got = open(capture, "rb").read()
        except FileNotFoundError:
            got = b""
        if got != b"".join(want):
            lines = got.split(b"\n")
            whole = sum(1 for l in lines if l + b"\n" in set(want))
            ctx.violation(case, {"bytes": len(got), "whole_records": whole, "tail": got[-80:]}, {"bytes": len(b"".join(want)), "records": ncalls},
                          "records written to a terminal that was not read for %d ms are cut or lost (%d calls x %d bytes)" % (delay_ms, ncalls, size))
    finally:
        d.close()


def main():
    ctx = Ctx(PID, "exploration", RULE)
    b = ctx.run.build("ts-plain")
    ctx.assumptions = ["a record is one O_APPEND write()/writev()/pwritev2(RWF_APPEND): any single-syscall append is accepted",
                       "devtty records are limited to 1500 bytes (nobody drains the pty during the call)",
                       "the stress part corroborates; the per-record syscall evidence is what decides"]
    if ctx.replay:
        case, _ = load_replay(ctx.replay)
        os_ = trace.OneShot(ctx.run, b, "replay")
        ctx.count("replay-1", ["replay"], sample=case)
        ctx.nontrivial.add("replay-2")
        try:
            if "fault" in case:
                run_fault(os_, case["size"], case["fault"])
            elif "size" in case:
                run_single(os_, case["size"], case["state"], case["out"], case.get("shortwrite", False))
            print("replay: property holds for this case")
        except Failure as f:
            ctx.violation(case, f.observed, f.expected, f.what)
        ctx.finish()
    rng = random.Random(ctx.seed)
    jobs = []
    for s in SIZES:
        for stt in (STATES if not ctx.quick else ["absent", "nonl", "lines"]):
            jobs.append((s, stt, "file"))
    for s in [2, 4096, 4097, 16385, 65537]:
        jobs += [(s, "lines", "filetpl"), (s, "empty", "devnull"), (s, "empty", "devtty")]
    for _ in range(40 if ctx.quick else 600):
        jobs.append((rng.choice([rng.randint(1, 9000), rng.randint(1, 1048575), rng.choice(SIZES) + rng.choice([-1, 0, 1])]), rng.choice(STATES), "file"))
    jobs = [(max(2, min(s, 1048576)), st_, o) for s, st_, o in jobs]
    jobs += [(100, "symlink", "file"), (4097, "symlink", "file"), (100, "dangling-symlink", "file"), (100, "foreign-owner", "file"), (5000, "foreign-owner", "file")]
    for s_ in [100, 5000, 20000] if ctx.quick else [2, 100, 4097, 5000, 20000, 70000, 1048575]:
        jobs += [(s_, "lines", "file", "shortwrite"), (s_, "nonl", "file", "shortwrite")]
    # every call made on the log descriptor failing once (old content, or old content + the record once)
    for s_ in [101, 5000] if ctx.quick else [3, 101, 4096, 5000, 70001]:
        for e_ in ("EIO", "EINTR") if ctx.quick else ("EIO", "EINTR", "ENOSPC", "EAGAIN"):
            jobs.append((s_, "FAULT", e_))
    nw = 16
    _W.update({"ctx": ctx, "build": b})
    for out, fails in run_workers(worker, nw, [(i, jobs[i::nw]) for i in range(nw)]):
        ctx.merge(out)
        for f in fails[:1]:
            if len(ctx.violations) < 3:
                ctx.violation(f["case"], f["observed"], f["expected"], f["what"])
    # stress
    # (rounds, processes, threads, calls[, interval timer in microseconds])
    plans = [(3, 4, 2, 6), (2, 16, 1, 4), (4, 2, 8, 120), (2, 4, 4, 60, 400)] if ctx.quick else \
            [(10, 4, 4, 10), (10, 16, 1, 10), (6, 8, 2, 12), (4, 2, 8, 20), (20, 2, 8, 300), (10, 1, 16, 300), (8, 4, 4, 100, 400), (8, 8, 2, 100, 150)]
    tot = 0
    for i, plan in enumerate(plans):
        rounds, nproc, nthreads, ncalls = plan[:4]
        n, viol = stress(ctx, b, rounds, nproc, nthreads, ncalls, ctx.seed * 17 + i, plan[4] if len(plan) > 4 else 0)
        tot += n
        ctx.evaluations += rounds
        ctx.classes["stress-round"] = ctx.classes.get("stress-round", 0) + rounds
        if viol and len(ctx.violations) < 4:
            ctx.violation({"stress": [rounds, nproc, nthreads, ncalls]}, viol["observed"], None, viol["what"])
    ctx.extra["stress_records_written"] = tot
    # a terminal that is not read for a while (devtty output): 60 KiB and more pile up against a tty queue of a few KiB
    for ncalls, size, delay in ([(60, 1000, 1200)] if ctx.quick else [(60, 1000, 1200), (400, 1000, 1500), (30, 4000, 800), (2000, 60, 1000)]):
        if len(ctx.violations) < 4:
            stalled_terminal(ctx, b, ncalls, size, delay)
    ctx.finish()


if __name__ == "__main__":
    main_wrapper(main)
