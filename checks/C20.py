#!/usr/bin/env python3-vt
"""C20 -- ld.so.preload is never left half-written (crash points and write faults)."""
import os
import random
import re
import subprocess
import sys

sys.path.insert(0, os.path.join(os.path.dirname(os.path.abspath(__file__)), "..", "lib"))

import model
import preload
from common import Ctx, Counters, Failure, confirm, main_wrapper, run_workers, load_replay

PID = "C20"
RULE = ("for each initial content (fixed set + seeded random compositions of the C18 line alphabet) x {enable, disable}: a traced dry "
        "run lists every system call of the snoopyctl process from execve to exit; then the process is re-run once per call and "
        "SIGKILLed on entry to exactly that call (= immediately after the previous one returned; from the first touch of the file on also with SIGTERM/SIGHUP/SIGINT delivered there), and once per write-type call "
        "(write, pwrite64, openat/creat of the written file, fsync, fdatasync, ftruncate, fchmod, rename*, close, unlink) x "
        "{ENOSPC, EIO, EDQUOT} with that call failing; and once per size limit (RLIMIT_FSIZE = 1, 7, 16, half, all-but-one byte of the "
        "new content) so that the content write genuinely comes back short, and once per cap (1, 7, 16 bytes) with every write() "
        "transferring at most that many bytes but succeeding. Oracle: the preload file afterwards holds exactly the old or exactly the "
        "new content (absent counts as old when it was absent). Beyond single runs: every call of the window failing with EIO/EINTR (plus "
        "call-specific errnos: EBUSY/EXDEV/EPERM/ENOENT/ESTALE on rename, EACCES/EMFILE on open, early end of file on read, and read faults that last: every read from call k on fails; single faults at every writing call with the command started without stderr or without stdout and stderr); histories (a run killed at a window "
        "call, the file then replaced by other content, a later run must produce exactly what it produces without that history); and two "
        "overlapping runs (the first held by a tracer delay on entry to its rename, the second killed at write-type calls or running to its end); and fault "
        "pairs: the rename failing with EBUSY/EXDEV plus a kill / ENOSPC / EIO at every call the command makes after that; and another package replacing the file atomically while the command is held on entry to each of its calls from the first touch of the file to its own rename (the file must end as one of the complete contents either party wrote). non-trivial = crash/fault point at or after the first call that "
        "touches the preload file or its temporary sibling; every second (content, op) is run 'aged': file last modified two days ago, in a directory where an "
        "unfaulted enable/disable/enable ran before; distinct by (content, op, call index, fault)")

FIXED = [None, b"", preload.PH + b"\n", b"/usr/lib/a.so\n", b"/usr/lib/a.so\n" + preload.PH + b"\n/usr/lib/b.so\n",
         b"/usr/lib/a.so", b"# c libsnoopy.so\n/usr/lib/a.so\n" + preload.PH, preload.PH + b" /usr/lib/b.so\n/lib/c.so\n",
         b"/usr/lib/a.so\n/usr/lib/b.so\n/usr/lib/c.so\n" + preload.PH + b" # mine\n", b"\n\n/usr/lib/a.so\r\n"]
WRITE_CALLS = {"write", "pwrite64", "writev", "fsync", "fdatasync", "ftruncate", "fchmod", "fchown", "rename", "renameat", "renameat2",
               "close", "unlink", "unlinkat", "openat", "open", "creat", "link", "linkat"}
ERRNOS = ["ENOSPC", "EIO", "EDQUOT"]
# every call of the window can fail, not only the writing ones: what a failing read / stat / rename must never do is make the
# command carry on with half the information and still replace the file
ANY_ERRNOS = ["EIO", "EINTR"]
_RN = ["EBUSY", "EXDEV", "EPERM", "ENOENT", "ESTALE"]     # (ENOENT: the temporary file vanished; ESTALE: what a network file system says then)
EXTRA_ERRNOS = {"rename": _RN, "renameat": _RN, "renameat2": _RN,
                "openat": ["EACCES", "EMFILE"], "open": ["EACCES", "EMFILE"], "unlink": ["EBUSY"], "unlinkat": ["EBUSY"],
                "read": ["EAGAIN"], "pread64": ["EAGAIN"], "mmap": ["ENOMEM"], "brk": ["ENOMEM"]}
LINE = re.compile(r"^([a-z_0-9]+)\((.*)$")


def strace(ctl, action, inject=None, out=None):
    cmd = ["strace", "-qq"]
    if out:
        cmd += ["-o", out, "-s", "200"]
    else:
        cmd += ["-o", "/dev/null"]      # (no "-e trace=none": injection only applies to traced calls)
    for inj in ([inject] if isinstance(inject, str) else (inject or [])):
        cmd += ["-e", "inject=" + inj]
    cmd += [ctl.ctl, action]
    closed = tuple(getattr(ctl, "closed", ()) or ())
    if closed:
        # the command is started WITHOUT some of its standard descriptors (`snoopyctl disable 2>&-` in a maintainer script): the
        # temporary file then gets that number, and whatever the command prints goes wherever that number points
        def pre():
            for fd in closed:
                try:
                    os.close(fd)
                except OSError:
                    pass
        p = subprocess.run(cmd, env=ctl.env, stdin=subprocess.DEVNULL, stdout=subprocess.DEVNULL, stderr=subprocess.DEVNULL, timeout=60,
                           preexec_fn=pre, close_fds=True)
        return p.returncode
    p = subprocess.run(cmd, env=ctl.env, stdin=subprocess.DEVNULL, stdout=subprocess.PIPE, stderr=subprocess.PIPE, timeout=60)
    return p.returncode


def prepare(ctl, old, aged):
    """aged: the directory has a history (an unfaulted enable and disable ran there before, whatever they left behind is still there)
    and the file was last modified two days ago -- as with a real /etc/ld.so.preload; otherwise a fresh directory and file"""
    if not aged:
        ctl.put(old)
        return
    ctl.put(b"/usr/lib/libhistory.so\n")
    ctl.run("enable")
    ctl.run("disable")
    ctl.run("enable")
    ctl.put(old, keep_stray=True, old_mtime=True)


def dry_run(ctl, content, action, aged=False):
    old = ctl.subst(content)
    prepare(ctl, old, aged)
    log = os.path.join(ctl.dir, "trace.log")
    strace(ctl, action, out=log)
    new = ctl.get()
    calls = []
    counts = {}
    touched = False
    first_touch = None
    with open(log, "r", errors="replace") as f:
        for ln in f:
            m = LINE.match(ln)
            if not m:
                continue
            name = m.group(1)
            counts[name] = counts.get(name, 0) + 1
            if not touched and ctl.file in ln:
                touched = True
                first_touch = len(calls)
            calls.append((name, counts[name], ln.strip()[:160]))
    return old, new, calls, first_touch


def trace_with(ctl, content, action, inject):
    """system calls of a run in which `inject` is active -> [(name, ordinal, text)] from the first call touching the file"""
    ctl.put(ctl.subst(content))
    log = os.path.join(ctl.dir, "trace2.log")
    strace(ctl, action, inject=inject, out=log)
    calls, counts, touched = [], {}, False
    with open(log, "r", errors="replace") as f:
        for ln in f:
            m = LINE.match(ln)
            if not m:
                continue
            name = m.group(1)
            counts[name] = counts.get(name, 0) + 1
            touched = touched or ctl.file in ln
            if touched:
                calls.append((name, counts[name], ln.strip()[:160]))
    return calls


def one_run(ctl, content, action, inject, old, new, aged=False):
    """Re-run with a fault; raise Failure when the file is neither old nor new afterwards."""
    prepare(ctl, old, aged)
    rc = strace(ctl, action, inject=inject)
    one_run.last_rc = rc
    after = ctl.get()
    ok = after == old or after == new or (old is None and after is None)
    if not ok:
        raise Failure("preload file is neither the complete old nor the complete new content after `%s` with %s%s" % (
                      action, inject, " (file two days old, earlier runs in the directory)" if aged else ""),
                      {"after": after, "stray": ctl.stray_files()}, {"old": old, "new": new}, key="partial")


def short_write_run(ctl, content, action, limit, old, new):
    """Genuine short writes: RLIMIT_FSIZE (soft, bytes) with SIGXFSZ ignored makes the write crossing the limit return a short
    count and the next one fail with EFBIG -- the way a full disk, a quota or a size limit really present themselves."""
    import resource
    import signal
    ctl.put(old)

    def pre():
        signal.signal(signal.SIGXFSZ, signal.SIG_IGN)
        resource.setrlimit(resource.RLIMIT_FSIZE, (limit, resource.RLIM_INFINITY))
    subprocess.run([ctl.ctl, action], env=ctl.env, stdin=subprocess.DEVNULL, stdout=subprocess.PIPE, stderr=subprocess.PIPE, timeout=30, preexec_fn=pre)
    after = ctl.get()
    if not (after == old or after == new or (old is None and after is None)):
        raise Failure("preload file is neither the complete old nor the complete new content after `%s` with writes cut short at %d bytes (RLIMIT_FSIZE)" % (action, limit),
                      {"after": after, "stray": ctl.stray_files()}, {"old": old, "new": new}, key="partial-short")


def capped_write_run(ctl, content, action, cap, old, new):
    """Short writes that SUCCEED (a preloaded shim caps every write() to a regular file at `cap` bytes): a correct
    write-everything loop still produces the complete new content."""
    ctl.put(old)
    env = dict(ctl.env)
    env["LD_PRELOAD"] = os.path.join(os.path.dirname(os.path.dirname(os.path.abspath(__file__))), "build", "libshortwrite.so")
    env["SHORTWRITE_CAP"] = str(cap)
    subprocess.run([ctl.ctl, action], env=env, stdin=subprocess.DEVNULL, stdout=subprocess.PIPE, stderr=subprocess.PIPE, timeout=30)
    after = ctl.get()
    if not (after == old or after == new or (old is None and after is None)):
        raise Failure("preload file is neither the complete old nor the complete new content after `%s` when every write() transfers at most %d bytes" % (action, cap),
                      {"after": after, "stray": ctl.stray_files()}, {"old": old, "new": new}, key="partial-capped")


RECOVER = [(b"", "enable"), (b"/usr/lib/a.so\n", "enable"), (preload.PH + b"\n", "disable"), (b"/usr/lib/a.so\n" + preload.PH + b"\n", "disable")]


def recovery_run(ctl, content, action, inject, old, nxt, cache):
    """History: a run is killed, the file is then changed by somebody else, a later run must behave as if the killed run had never
    happened -- whatever the killed run left lying around."""
    c2, a2 = nxt
    if (c2, a2) not in cache:
        ctl.put(ctl.subst(c2))
        rc, _, _ = ctl.run(a2)
        cache[(c2, a2)] = (rc, ctl.get())
    ctl.put(old)
    strace(ctl, action, inject=inject)
    stray = ctl.stray_files()
    ctl.put(ctl.subst(c2), keep_stray=True)
    rc, _, _ = ctl.run(a2)
    after = ctl.get()
    ctl.put(None)
    if (rc, after) != cache[(c2, a2)]:
        raise Failure("after `%s` was killed (%s) and the file was then replaced, a later `%s` does not produce what it produces without that history" % (action, inject, a2),
                      {"exit": rc, "after": after, "left_behind_by_killed_run": stray}, {"exit": cache[(c2, a2)][0], "after": cache[(c2, a2)][1]}, key="history")
    return bool(stray)


def pair_run(ctl, content, action, rename_name, kill_inject, old, new):
    """Two runs overlap: A is held (tracer delay) on entry to its rename, B runs meanwhile and is killed at the given call (or runs to
    the end when kill_inject is None).  Whatever happens to B, the file is the complete old or the complete new content."""
    import time
    ctl.put(old)
    a = subprocess.Popen(["strace", "-qq", "-o", "/dev/null", "-e", "inject=%s:delay_enter=900000" % rename_name, ctl.ctl, action], env=ctl.env,
                         stdin=subprocess.DEVNULL, stdout=subprocess.DEVNULL, stderr=subprocess.DEVNULL)
    time.sleep(0.35)
    if kill_inject:
        strace(ctl, action, inject=kill_inject)
    else:
        subprocess.run([ctl.ctl, action], env=ctl.env, stdin=subprocess.DEVNULL, stdout=subprocess.DEVNULL, stderr=subprocess.DEVNULL, timeout=30)
    mid = ctl.get()
    try:
        a.wait(timeout=30)
    except subprocess.TimeoutExpired:
        a.kill()
    after = ctl.get()
    for label, v in (("while the first run was still held before its rename", mid), ("after both runs ended", after)):
        if not (v == old or v == new or (old is None and v is None)):
            raise Failure("two overlapping `%s` runs (second one %s): preload file is neither the complete old nor the complete new content %s" % (
                          action, "killed at " + kill_inject if kill_inject else "running to its end", label),
                          {"content": v, "stray": ctl.stray_files()}, {"old": old, "new": new}, key="overlap")


EXT_PREFIX = b"/opt/other/lib/libother-package.so\n"


def replace_run(ctl, content, action, hold, old, cache):
    """Another package replaces the file ATOMICALLY (complete new content written aside, rename over it) while the command is held
    (tracer delay) on entry to one of its calls.  No kill, no failing call: whatever the order of events, the file must end up as one of
    the complete contents the parties meant to write -- the other package's, or the command's result for the old or for the other
    package's content (a lost update is not this property's business, a mixture or a cut-off line is)."""
    import time
    ext = EXT_PREFIX + (old or b"")
    if (ext, action) not in cache:
        ctl.put(ext)
        ctl.run(action)
        cache[(ext, action)] = ctl.get()
    if (old, action) not in cache:
        ctl.put(old)
        ctl.run(action)
        cache[(old, action)] = ctl.get()
    allowed = [ext, cache[(ext, action)], cache[(old, action)]]
    ctl.put(old)
    a = subprocess.Popen(["strace", "-qq", "-o", "/dev/null", "-e", "inject=%s:delay_enter=600000:when=%d" % hold, ctl.ctl, action], env=ctl.env,
                         stdin=subprocess.DEVNULL, stdout=subprocess.DEVNULL, stderr=subprocess.DEVNULL)
    time.sleep(0.3)
    side = ctl.file + ".other-package-new"
    with open(side, "wb") as f:
        f.write(ext)
    os.rename(side, ctl.file)
    try:
        a.wait(timeout=30)
    except subprocess.TimeoutExpired:
        a.kill()
    after = ctl.get()
    if after not in allowed:
        raise Failure("`%s` held on entry to %s #%d while another package replaced the file atomically: the file ends up as none of the complete "
                      "contents either party wrote" % (action, hold[0], hold[1]), {"after": after, "stray": ctl.stray_files()},
                      {"other_package": ext, "command_on_other_package": allowed[1], "command_on_old": allowed[2]}, key="replace")


def plans_for(calls, first_touch, quick):
    """yield (inject expression, nontrivial, label)"""
    for i, (name, ordinal, text) in enumerate(calls):
        nontriv = first_touch is not None and i >= first_touch
        if name in ("exit_group", "exit"):
            continue
        if quick and not nontriv and i % 4:
            continue            # before the file is first touched the outcome is trivially "old": sample these
        yield "%s:signal=KILL:when=%d" % (name, ordinal), nontriv, ("kill", i, name)
        if nontriv:
            # "killed" is not only SIGKILL: the signals a terminal, a package manager or a shutdown send can be caught, and whatever the
            # command does when it catches one is part of the run
            for sig in (("TERM",) if quick else ("TERM", "HUP", "INT")):
                yield "%s:signal=%s:when=%d" % (name, sig, ordinal), True, ("signal:" + sig, i, name)
            errs = (ERRNOS if name in WRITE_CALLS else []) + ANY_ERRNOS + EXTRA_ERRNOS.get(name, [])
            for e in errs:
                yield "%s:error=%s:when=%d" % (name, e, ordinal), True, ("fault:" + e, i, name)
            if name in ("read", "pread64"):
                # end of file earlier than the size seen before (injected return values replace the call, so only 0 is faithful)
                yield "%s:retval=0:when=%d" % (name, ordinal), True, ("early-eof", i, name)
                # a failure that does not go away (a bad sector, a dead network mount): every read from this one on fails -- stdio
                # quietly retries a single failed read of its look-ahead, so only a lasting fault reaches the code that reads the content
                for e in ("EIO", "EINTR"):
                    yield "%s:error=%s:when=%d+" % (name, e, ordinal), True, ("fault-lasting:" + e, i, name)


def closed_run(ctl, content, action, inject, closed, aged=False):
    """one fault while the command runs without the standard descriptors in `closed`"""
    ctl.closed = tuple(closed)
    try:
        old, new, calls, ft = dry_run(ctl, content, action, aged)
        one_run(ctl, content, action, inject, old, new, aged)
    except Failure as f:
        f.what += " -- command started without descriptor(s) %s" % ",".join(map(str, closed))
        raise
    finally:
        ctl.closed = ()


_W = {}


def worker(args):
    idx, jobs = args
    ctx = _W["ctx"]
    ctl = preload.Ctl(_W["build"], os.path.join(ctx.run.dir, "ctl-%d" % idx))
    local = Counters(ctx.known, idx)
    fails = []
    for jn, (content, action) in enumerate(jobs):
        aged = (jn + idx) % 2 == 1
        old, new, calls, first_touch = dry_run(ctl, content, action, aged)
        # the dry run itself must agree with the functional model (sanity of the harness; C18/C19 judge this)
        for inject, nontriv, label in plans_for(calls, first_touch, ctx.quick):
            case = {"content": content, "action": action, "inject": inject, "aged": aged}
            local.count((content, action, label, aged) if nontriv else None,
                        [action, label[0], "call:" + label[2]] + (["window"] if nontriv else ["startup"]) + (["aged-file+directory-with-history"] if aged else []),
                        sample={"content": content, "action": action, "inject": inject, "call": calls[label[1]][2]})
            try:
                one_run(ctl, content, action, inject, old, new, aged)
                if label[0] == "kill" and one_run.last_rc in (137, -9):
                    local.extra["runs_where_the_process_was_killed"] = local.extra.get("runs_where_the_process_was_killed", 0) + 1
                if label[0] != "kill" and one_run.last_rc != 0:
                    local.extra["fault_runs_with_nonzero_exit"] = local.extra.get("fault_runs_with_nonzero_exit", 0) + 1
            except Failure as f:
                if local.is_known(f.key):
                    local.known_hit(f.key, f.what)
                    continue
                ok, last = confirm(lambda c: one_run(ctl, c["content"], c["action"], c["inject"], old, new, c.get("aged", False)), case)
                if ok and not fails:
                    case["syscalls"] = len(calls)
                    fails.append({"case": case, "what": last.what, "observed": last.observed, "expected": last.expected})
        # the same single faults at the writing calls while the command runs without stderr (and stdout): every message it prints on
        # the way out of a failing call then goes to whatever got that descriptor number -- possibly the temporary file
        closed = ((2,), (1, 2))[(jn + idx) % 2]
        ctl.closed = closed
        try:
            old_c, new_c, calls_c, ft_c = dry_run(ctl, content, action, False)
            for i, (name, ordinal, text) in enumerate(calls_c):
                if ft_c is None or i < ft_c or name not in WRITE_CALLS:
                    continue
                for e in ["EIO"] + EXTRA_ERRNOS.get(name, [])[:2] + (["EPERM"] if name in ("fchown", "fchmod") else []):
                    inject = "%s:error=%s:when=%d" % (name, e, ordinal)
                    case = {"content": content, "action": action, "inject": inject, "closed": list(closed)}
                    local.count((content, action, "closed", closed, inject), [action, "closed-stdio+fault", "call:" + name, "window"], sample=case)
                    try:
                        one_run(ctl, content, action, inject, old_c, new_c, False)
                    except Failure as f:
                        if local.is_known(f.key):
                            local.known_hit(f.key, f.what)
                            continue
                        ok, last = confirm(lambda c: closed_run(ctl, c["content"], c["action"], c["inject"], c["closed"]), case)
                        ctl.closed = closed
                        if ok and not fails:
                            fails.append({"case": case, "what": last.what, "observed": last.observed, "expected": last.expected})
        finally:
            ctl.closed = ()
        # histories and overlapping runs (only where the run really rewrites the file)
        if new != old and first_touch is not None:
            window = [(i, c) for i, c in enumerate(calls) if i >= first_touch and c[0] not in ("exit_group", "exit")]
            kills = window[::3] if ctx.quick else window
            cache = _W.setdefault("recover-cache-%d" % idx, {})
            for n, (i, (name, ordinal, text)) in enumerate(kills):
                inject = "%s:signal=KILL:when=%d" % (name, ordinal)
                nxt = RECOVER[(n + len(calls)) % len(RECOVER)]
                case = {"content": content, "action": action, "inject": inject, "then": list(nxt)}
                try:
                    left = recovery_run(ctl, content, action, inject, old, nxt, cache)
                    local.count((content, action, "history", i, nxt[1]) if left else None, [action, "history:killed-then-later-run"] + (["history:leftover-present"] if left else []), sample=case)
                except Failure as f:
                    local.count((content, action, "history", i), [action, "history:killed-then-later-run", "violating"], sample=case)
                    if local.is_known(f.key):
                        local.known_hit(f.key, f.what)
                    elif not any(x["case"].get("then") for x in fails):
                        ok, last = confirm(lambda c: recovery_run(ctl, c["content"], c["action"], c["inject"], old, tuple(c["then"]), cache), case)
                        if ok:
                            fails.append({"case": case, "what": last.what, "observed": last.observed, "expected": last.expected})
            rn = [c[0] for _, c in window if c[0].startswith("rename")]
            if rn and (not ctx.quick or (len(calls) + len(content or b"")) % 2 == 0):
                # every write-type call of the second run from the creation of its temporary file to its rename
                wk = [(i, c) for i, c in window if c[0] in WRITE_CALLS]
                picks = [None] + wk
                for pk in picks:
                    inject = None if pk is None else "%s:signal=KILL:when=%d" % (pk[1][0], pk[1][1])
                    case = {"content": content, "action": action, "overlap": rn[0], "kill": inject}
                    local.count((content, action, "overlap", inject), [action, "overlap:two-runs"], sample=case)
                    try:
                        pair_run(ctl, content, action, rn[0], inject, old, new)
                    except Failure as f:
                        if local.is_known(f.key):
                            local.known_hit(f.key, f.what)
                        elif not any("overlap" in x["case"] for x in fails):
                            ok, last = confirm(lambda c: pair_run(ctl, c["content"], c["action"], c["overlap"], c["kill"], old, new), case)
                            if ok:
                                fails.append({"case": case, "what": last.what, "observed": last.observed, "expected": last.expected})
        # another package's atomic replace at every call boundary from the first touch of the file to the command's own rename
        if old is not None and first_touch is not None and (not ctx.quick or jn % 2 == 0):
            holds = []
            for i, c in enumerate(calls):
                if i >= first_touch and c[0] not in ("exit_group", "exit"):
                    holds.append(c)
                    if c[0].startswith("rename"):
                        break
            rcache = _W.setdefault("replace-cache-%d" % idx, {})
            for name, ordinal, text in holds:
                case = {"content": content, "action": action, "replace_at": [name, ordinal]}
                local.count((content, action, "replace", name, ordinal), [action, "external-atomic-replace", "call:" + name], sample=dict(case, call=text))
                try:
                    replace_run(ctl, content, action, (name, ordinal), old, rcache)
                except Failure as f:
                    if local.is_known(f.key):
                        local.known_hit(f.key, f.what)
                    elif not any("replace_at" in x["case"] for x in fails):
                        ok, last = confirm(lambda c: replace_run(ctl, c["content"], c["action"], tuple(c["replace_at"]), old, rcache), case)
                        if ok:
                            fails.append({"case": case, "what": last.what, "observed": last.observed, "expected": last.expected})
        # a failing rename followed by a second fault: whatever the command does INSTEAD of the rename is subject to the same rule
        if new != old and first_touch is not None:
            for name, ordinal, text in [c for c in calls[first_touch:] if c[0].startswith("rename")][:1]:
                for e in ("EBUSY", "EXDEV") if not ctx.quick else ("EBUSY",):
                    first = "%s:error=%s:when=%d" % (name, e, ordinal)
                    calls2 = trace_with(ctl, content, action, first)
                    after = False
                    for n2, o2, t2 in calls2:
                        if n2 == name and o2 == ordinal:
                            after = True
                            continue
                        if not after or n2 in ("exit_group", "exit") or n2 == name:
                            continue
                        seconds = ["%s:signal=KILL:when=%d" % (n2, o2)] + (["%s:error=%s:when=%d" % (n2, e2, o2) for e2 in ("ENOSPC", "EIO")] if n2 in WRITE_CALLS else [])
                        for second in seconds:
                            case = {"content": content, "action": action, "inject": [first, second]}
                            local.count((content, action, "pair", first, second), [action, "pair:failing-rename+second-fault", "call:" + n2], sample=dict(case, call=t2))
                            try:
                                one_run(ctl, content, action, [first, second], old, new)
                            except Failure as f:
                                if local.is_known(f.key):
                                    local.known_hit(f.key, f.what)
                                elif not any(isinstance(x["case"].get("inject"), list) for x in fails):
                                    ok, last = confirm(lambda c: one_run(ctl, c["content"], c["action"], c["inject"], old, new), case)
                                    if ok:
                                        fails.append({"case": case, "what": last.what, "observed": last.observed, "expected": last.expected})
        # short writes
        if new is not None and new != old:
            for limit in sorted({1, max(1, len(new) // 2), max(1, len(new) - 1), 7, 16}):
                if limit >= len(new):
                    continue
                case = {"content": content, "action": action, "short_limit": limit}
                local.count((content, action, "short", limit), [action, "short-write"], sample=case)
                try:
                    short_write_run(ctl, content, action, limit, old, new)
                except Failure as f:
                    if local.is_known(f.key):
                        local.known_hit(f.key, f.what)
                    elif not any(x["what"].startswith("preload file is neither") and "RLIMIT" in x["what"] for x in fails):
                        ok, last = confirm(lambda c: short_write_run(ctl, c["content"], c["action"], c["short_limit"], old, new), case)
                        if ok:
                            fails.append({"case": case, "what": last.what, "observed": last.observed, "expected": last.expected})
            for cap in (1, 7, 16):
                case = {"content": content, "action": action, "write_cap": cap}
                local.count((content, action, "cap", cap), [action, "capped-write"], sample=case)
                try:
                    capped_write_run(ctl, content, action, cap, old, new)
                except Failure as f:
                    if local.is_known(f.key):
                        local.known_hit(f.key, f.what)
                    elif not any("transfers at most" in x["what"] for x in fails):
                        ok, last = confirm(lambda c: capped_write_run(ctl, c["content"], c["action"], c["write_cap"], old, new), case)
                        if ok:
                            fails.append({"case": case, "what": last.what, "observed": last.observed, "expected": last.expected})
    return local.export(), fails


def random_contents(seed, n):
    rng = random.Random(seed)
    out = []
    for _ in range(n):
        k = rng.randint(1, 5)
        lines = [rng.choice(preload.ALPHABET) for _ in range(k)]
        body = b"\n".join(lines) + (b"\n" if rng.random() < 0.7 else b"")
        out.append(body)
    return out


def main():
    ctx = Ctx(PID, "fault_enumeration", RULE)
    b = ctx.run.build("ts-plain")
    ctx.assumptions = ["strace delivers SIGKILL on entry to the selected call; killing on entry to call k is the same instant, for the file, as "
                       "killing right after call k-1 returned", "injected errors replace the call (it is not executed)",
                       "temporary sibling files (ld.so.preload.XXXXXX) left behind by a killed run are not a violation"]
    if ctx.replay:
        case, _ = load_replay(ctx.replay)
        ctl = preload.Ctl(b, os.path.join(ctx.run.dir, "ctl-r"))
        old, new, calls, ft = dry_run(ctl, case["content"], case["action"], case.get("aged", False))
        ctx.count("replay-1", ["replay"], sample=case)
        ctx.nontrivial.add("replay-2")
        try:
            if "closed" in case:
                closed_run(ctl, case["content"], case["action"], case["inject"], case["closed"])
            elif "then" in case:
                recovery_run(ctl, case["content"], case["action"], case["inject"], old, tuple(case["then"]), {})
            elif "replace_at" in case:
                replace_run(ctl, case["content"], case["action"], tuple(case["replace_at"]), old, {})
            elif "overlap" in case:
                pair_run(ctl, case["content"], case["action"], case["overlap"], case["kill"], old, new)
            elif "write_cap" in case:
                capped_write_run(ctl, case["content"], case["action"], case["write_cap"], old, new)
            elif "short_limit" in case:
                short_write_run(ctl, case["content"], case["action"], case["short_limit"], old, new)
            else:
                one_run(ctl, case["content"], case["action"], case["inject"], old, new, case.get("aged", False))
            print("replay: property holds for this case")
        except Failure as f:
            ctx.violation(case, f.observed, f.expected, f.what)
        ctx.finish()
    contents = list(FIXED) + random_contents(ctx.seed, 4 if ctx.quick else 40)
    jobs = [(c, a) for c in contents for a in ("enable", "disable")]
    nw = 8 if ctx.quick else 16
    _W.update({"ctx": ctx, "build": b})
    shards = [(i, jobs[i::nw]) for i in range(nw)]
    for out, fails in run_workers(worker, nw, shards):
        ctx.merge(out)
        for f in fails[:1]:
            if len(ctx.violations) < 3:
                ctx.violation(f["case"], f["observed"], f["expected"], f["what"])
    if not ctx.violations and not ctx.extra.get("runs_where_the_process_was_killed"):
        from build import infra_fail
        infra_fail("no traced run was actually killed: fault injection is not working, the check would be vacuous")
    ctx.extra["contents"] = len(contents)
    ctx.extra["exhaustive"] = True
    ctx.extra["exhaustive_note"] = "every system-call boundary from the first call touching the file to exit, for each explored (content, op)"
    ctx.finish()


if __name__ == "__main__":
    main_wrapper(main)
