#!/usr/bin/env python3-vt
"""C15 -- exclude_spawns_of drops exactly descendants of listed programs."""
import os
import sys

sys.path.insert(0, os.path.join(os.path.dirname(os.path.abspath(__file__)), "..", "lib"))
from hypothesis import strategies as st

import drv
import gen
import pbt
from common import Ctx, Failure, main_wrapper

PID = "C15"
RULE = ("Hypothesis-generated process chains of depth 1..12 built by the harness (every level fork()s and sets its kernel name with "
        "prctl(PR_SET_NAME): 1..15 bytes, spaces, parentheses, names that are prefixes/extensions of each other, occasionally "
        "empty), a renamed leaf that performs the wrapped exec, and lists of 1..50 names with duplicates and empty items "
        "containing a chain name at any position, only the leaf's own name, near misses, or nothing. Oracle: the harness reads "
        "the ACTUAL ancestor names up to pid 1 from /proc in the leaf; drop <=> some proper ancestor's name is listed; an "
        "unreadable tree (empty-named ancestor; or, in a traced run, the open/read of an ancestor's /proc/<pid>/stat failing by injection) "
        "must pass unless a listed ancestor sits below it. Histories: up to 3 further calls of the same process after an ancestor at a drawn "
        "distance renamed itself (same parent pid, other names), each call judged against the tree re-read at that moment; the caller's errno on "
        "entry is drawn from {0, ERANGE, EINTR, EINVAL}. non-trivial = a history, or match at depth "
        ">= 2, or self-only match, or a name with ')'/'('/space, or a prefix/extension near miss; distinct by (depth, match "
        "position, name class)")

NAMECH = b"abcdefghijklmnopqrstuvwxyzABCDEFGHIJKLMNOPQRSTUVWXYZ0123456789 ()-._#:=\"'"
try:
    PID1 = open("/proc/1/comm", "rb").read().rstrip(b"\n") or b"init"      # the top of every chain: listed in a share of the cases
except OSError:
    PID1 = b"init"


def strategy():
    name = st.one_of(gen.bytes_nonul(1, 15, alphabet=NAMECH, boundaries=(1, 14, 15)),
                     st.sampled_from([b"sshd", b"my (app)", b"a)", b"(", b") (", b"x y", b"worker", b"work", b"123456789012345",
                                      b"12345678901234", b" lead", b"trail ", b"cron", b"job #1", b"job", b"x=y", b"q\"uote"]))

    @st.composite
    def case(draw):
        depth = draw(st.integers(1, 12))
        chain = [draw(name) for _ in range(depth)]
        if draw(st.sampled_from([False] * 7 + [True])):
            chain[draw(st.integers(0, depth - 1))] = b""
        leaf = draw(st.one_of(name, st.sampled_from(chain)))
        pool = [c for c in chain if c] + [leaf] + [b"execdrv", b"python3", b"nosuch", b"", b"sh", PID1, PID1]
        for c in chain[:4]:
            if c:
                pool += [c[:-1], c + b"x", c.lower(), c + b" "]
        n = draw(st.sampled_from([1, 1, 2, 3, 5, 50]))
        mode = draw(st.sampled_from(["random", "random", "none", "selfonly", "one"]))
        if mode == "none":
            items = [draw(st.sampled_from([b"nosuch", b"zz", b"", b"nope"])) for _ in range(n)]
        elif mode == "selfonly":
            items = [leaf] * min(n, 3)
        elif mode == "one":
            items = [draw(st.sampled_from([b"nosuch", b"", b"zz"])) for _ in range(n - 1)]
            items.insert(draw(st.integers(0, len(items))), draw(st.sampled_from([c for c in chain if c] or [b"nosuch"])))
        else:
            items = [draw(st.sampled_from(pool)) for _ in range(n)]
        items = [i.replace(b",", b"_") for i in items]
        # history: further calls of the SAME process after an ancestor changed its name (the parent pid stays the same)
        steps = []
        for _ in range(draw(st.sampled_from([0, 0, 1, 1, 2, 3]))):
            dist = draw(st.integers(1, depth))
            newname = draw(st.one_of(st.sampled_from([i for i in items if i and len(i) <= 15] or [b"zz"]), st.sampled_from(chain), name))
            steps.append((dist, newname or b"renamed"))
        return {"chain": chain, "leaf": leaf, "items": items, "steps": steps, "stdin": draw(st.sampled_from([None, None, None, "closed", "null"])),
                # the whole chain lives in a pid namespace of its own with 7-digit pids (pid, name and parent pid fill the stat line to its maximum)
                "bigpid": draw(st.sampled_from([0, 0, 0, 0, 1000000, 4000000, 4194200])),
                "pre_errno": [draw(st.sampled_from([0, 0, 0, 34, 34, 4, 22])) for _ in range(len(steps) + 1)],
                # ancestors whose main thread has finished while another thread carries on (alive, named, with children -- but state Z in /proc)
                "zleaders": sorted(set(draw(st.lists(st.integers(0, depth - 1), max_size=2)))) if draw(st.sampled_from([False, False, True])) else [],
                # the caller gave up its privileges (root-owned ancestors: it may read their /proc entries but not signal them)
                "leaf_uid": 65534 if (not steps and draw(st.sampled_from([False, False, True]))) else 0}
    return case()


def evaluate(env, c):
    d = env.driver(c.get("variant", "ts-asan"))
    out = d.out
    items = list(c["items"])
    if not items or items[-1] != items[-1].rstrip(b" \t") or items[-1] == b"":
        items.append(b"zz-end")                 # the INI parser strips trailing blanks of the value
    arg = b",".join(items)
    ini = gen.render_ini([(b"output", b"file:" + out.encode() + b"/log"), (b"message_format", b"R"),
                          (b"filter_chain", b"exclude_spawns_of:" + arg)])
    if any(len(l) > 1022 for l in ini.split(b"\n")) or not gen.ini_safe(b"exclude_spawns_of:" + arg):
        return
    steps = c.get("steps", [])
    pre = c.get("pre_errno", [0] * (len(steps) + 1))
    one = lambda k: [drv.op("Q"), drv.op("e", pre[k]), drv.op_exec("e", b"/bin/x", [b"x"], [], ret=-1, err=2), drv.op("G")]
    ops = [drv.op("x", out + "/log"), drv.op("W", "log", out + "/log"), drv.op("C", ini)] + \
          ([drv.op("S", 0, c["stdin"])] if c.get("stdin") else []) + ([drv.op("g", c["bigpid"])] if c.get("bigpid") else []) + \
          ([drv.op("d", sum(1 << z for z in c["zleaders"]))] if c.get("zleaders") else []) + \
          [drv.op("F", *c["chain"]), drv.op("N", c["leaf"])] + \
          ([drv.op("U", c["leaf_uid"], c["leaf_uid"], c["leaf_uid"], c["leaf_uid"], c["leaf_uid"], c["leaf_uid"])] if c.get("leaf_uid") else []) + one(0)
    for k, (dist, newname) in enumerate(steps):
        ops += [drv.op("a", dist, newname)] + one(k + 1)
    res = d.scenario(ops)
    reports = d.sanitizer_reports()
    if not res.clean or len(res.of("G")) != len(steps) + 1 or len(res.of("Q")) != len(steps) + 1:
        raise Failure("process crashed or hung", {"result": res.describe(), "sanitizer": [r[:2000] for r in reports[:1]]}, key="crash")
    names = [i for i in arg.split(b",") if i]
    before = 0
    for k in range(len(steps) + 1):
        q = res.of("Q")[k].f
        content = drv.parse_dump(res.of("G")[k])["log"][2] or b""
        if content != b"R\n" * (len(content) // 2) or len(content) // 2 - before not in (0, 1):
            raise Failure("log file content is not a sequence of whole records", {"content": content[:100]}, key="content")
        logged = len(content) // 2 - before == 1
        before = len(content) // 2
        if int(q[10]):
            continue   # the harness itself could not read the tree
        anc = q[9].split(b"\n")[:-1]
        hits = [j for j, a in enumerate(anc) if a in names]
        empties = [j for j, a in enumerate(anc) if a == b""]
        if not hits:
            want = {True}
        elif empties and min(empties) < min(hits):
            want = {True, False}      # tree unreadable below the first listed ancestor: pass allowed
        else:
            want = {False}
        if logged not in want:
            raise Failure("exclude_spawns_of:%s with ancestors %s%s%s -> %s" % (arg[:200].decode("latin-1"),
                          [a.decode("latin-1") for a in anc[:14]],
                          " (call %d of the process, after ancestor renames %s)" % (k + 1, [(s[0], s[1].decode("latin-1")) for s in steps[:k]]) if k else "",
                          " [errno %d on entry]" % pre[k] if pre[k] else "", "logged" if logged else "dropped"),
                          {"logged": logged, "leaf": c["leaf"]}, {"logged": sorted(want)}, key="decision")


def classify(c):
    chain, items = c["chain"], [i for i in c["items"] if i]
    # chain[0] is the outermost harness-made ancestor, chain[-1] the leaf's parent
    pos = [len(chain) - 1 - k for k, a in enumerate(chain) if a and a in items]
    depth_hit = min(pos) + 1 if pos else 0
    selfonly = (c["leaf"] in items) and not pos
    special = any(ch in a for a in chain + [c["leaf"]] for ch in (b"(", b")", b" "))
    near = any((i != a and (a.startswith(i) or i.startswith(a))) for a in chain if a for i in items)
    nontriv = depth_hit >= 2 or selfonly or special or near
    cls = ["depth:%d" % min(len(chain), 12), "hit-depth:%d" % min(depth_hit, 12), "list:%d" % (1 if len(c["items"]) == 1 else (5 if len(c["items"]) <= 5 else 50))]
    st_ = c.get("steps", [])
    flips = False
    if st_:
        names = set(items)
        cur = list(chain)
        v0 = any(a in names for a in cur if a)
        for dist, nn in st_:
            cur[len(cur) - dist] = nn
            if any(a in names for a in cur if a) != v0:
                flips = True
    for flag, n in ((selfonly, "self-only"), (special, "special-chars"), (near, "prefix-near-miss"), (b"" in chain, "empty-named-ancestor"),
                    (PID1 in items, "pid-1-listed"), (bool(c.get("bigpid")), "pids:7-digits(own pid namespace)"), (bool(c.get("stdin")), "stdin:" + str(c.get("stdin"))),
                    (bool(c.get("zleaders")), "ancestor-whose-main-thread-has-exited"), (bool(c.get("leaf_uid")), "unprivileged-caller-under-root-ancestors"),
                    (bool(st_), "history:ancestor-renamed-between-calls"), (flips, "history:verdict-changes"), (any(c.get("pre_errno", [])), "caller-errno-set")):
        if flag:
            cls.append(n)
    st0 = c.get("steps", [])
    nontriv = nontriv or bool(st0)
    key = (len(chain), depth_hit, selfonly, special, near, len(st0), tuple(d for d, _ in st0)) if nontriv else None
    return key, cls


def unreadable_tree_phase(ctx):
    """'passes ... whenever the process tree cannot be read': the call is traced, the open/read of an ancestor's /proc/<pid>/stat is
    failed (strace injection), and although a listed ancestor exists the call must be logged."""
    import trace
    b = ctx.run.build("ts-plain")
    os_ = trace.OneShot(ctx.run, b, "unreadable")
    out = os_.out
    # in oneshot mode the parent of the calling process is the tracer itself
    ini = gen.render_ini([(b"output", b"file:" + out.encode() + b"/log"), (b"message_format", b"R"), (b"filter_chain", b"exclude_spawns_of:strace,execdrv")])
    ops = [drv.op("x", out + "/log"), drv.op("C", ini), drv.op_exec("e", b"/bin/x", [b"x"], [], ret=-1, err=2)]
    os_.write_scenario(ops)
    rc, events = os_.run_traced([], timeout=30)
    calls, _ = os_.parse_log()

    def logged():
        try:
            return open(out + "/log", "rb").read() == b"R\n"
        except FileNotFoundError:
            return False
    ctx.count(("unreadable", "dry"), ["traced-dry-run"], sample={"chain": "exclude_spawns_of:strace,execdrv", "fault": None})
    if rc != 0 or logged():
        ctx.inconclusive.append("traced dry run: listed ancestor 'strace' did not drop the call (rc=%s)" % rc)
        return
    stat_calls = [c for c in calls if c["phase"] == 1 and c["name"] in ("openat", "read", "newfstatat", "fstat") and
                  ("/stat\"" in c["text"] or c["name"] != "openat")]
    opens = [c for c in calls if c["phase"] == 1 and c["name"] == "openat" and "/stat\"" in c["text"]]
    plans = []
    for c in opens[:4]:
        for e in ("EACCES", "ENOENT", "EMFILE"):
            plans.append((c, "openat:error=%s:when=%d" % (e, c["ordinal"])))
    # the read of the first stat file coming back empty / failing
    if opens:
        first_open_idx = calls.index(opens[0])
        for c in calls[first_open_idx:first_open_idx + 6]:
            if c["name"] == "read":
                plans.append((c, "read:error=EIO:when=%d" % c["ordinal"]))
                plans.append((c, "read:retval=0:when=%d" % c["ordinal"]))
                break
    for c, inj in plans:
        try:
            os.unlink(out + "/log")
        except FileNotFoundError:
            pass
        rc, events = os_.run_traced(["-e", "inject=" + inj], timeout=30)
        ctx.count(("unreadable", inj), ["unreadable-tree-injection"], sample={"chain": "exclude_spawns_of:strace,execdrv", "fault": inj, "call": c["text"][:90]})
        T = [e for e in events if e.code == "T"]
        if rc != 0 or not T:
            ctx.violation({"unreadable": inj}, {"rc": rc}, None, "call crashed when the process tree could not be read (%s)" % inj)
            return
        if not logged():
            ctx.violation({"unreadable": inj}, {"logged": False}, {"logged": True},
                          "exclude_spawns_of dropped the call although the process tree could not be read (%s on %s)" % (inj, c["text"][:80]))
            return


def main():
    ctx = Ctx(PID, "exploration", RULE)
    b = ctx.run.build("ts-asan")
    ctx.assumptions = ["names never contain ',' (list separator) or ';' (chain separator) and lists stay within one 1022-byte config line",
                       "harness processes above the generated chain (execdrv, sh/unshare, python) are part of the observed ancestor list",
                       "an ancestor with an empty kernel name counts as 'tree cannot be read' from that point upwards"]
    nw, per = (4, 300) if ctx.quick else (16, 2500)
    pbt.run(ctx, {"ts-asan": b, "nts-asan": ctx.run.build("nts-asan")}, strategy, evaluate, classify, nw, per, variants=["ts-asan", "ts-asan", "nts-asan"])
    if not ctx.replay:
        unreadable_tree_phase(ctx)
    ctx.finish()


if __name__ == "__main__":
    main_wrapper(main)
