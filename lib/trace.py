"""strace-driven tracing / fault injection of ONE wrapped call (execdrv oneshot mode).

The tracee brackets the wrapper window with prctl(0x56455249, n): 1 = right before the wrapped call,
2 = recording real-exec entered, 3 = call returned.  strace supplies the syscall log, per-call error
injection (-e inject=NAME:error=E:when=K) and signal injection; `when` counts invocations of NAME from
the start of the process, so ordinals are taken from a dry run of the same scenario.
"""
import os
import re
import subprocess

import drv
from build import sanitizer_preload

MARK = "0x56455249"
LINE = re.compile(r"^(?:\d+\s+)?([a-z_0-9]+)\((.*)$")


# (source, target) pairs bind-mounted inside every traced run's private mount namespace (generated system files)
BINDS = []


class OneShot:
    def __init__(self, run, build, tag):
        self.run = run
        self.build = build
        self.dir = os.path.join(run.dir, "os-" + tag)
        self.etc = os.path.join(self.dir, "etc")
        self.out = os.path.join(self.dir, "out")
        for d in (self.dir, self.etc, self.out):
            os.makedirs(d, exist_ok=True)
            os.chmod(d, 0o777)
        self.scen = os.path.join(self.dir, "scenario.bin")
        self.res = os.path.join(self.dir, "result.bin")
        self.log = os.path.join(self.dir, "strace.log")
        pre = []
        sp = sanitizer_preload(build)
        if sp:
            pre.append(sp)
        pre += [build["lib"], os.path.join(drv.BUILD, "librecorder.so")]
        self.preload = " ".join(pre)

    def write_scenario(self, ops):
        with open(self.scen, "wb") as f:
            f.write(b"".join(ops))

    def run_traced(self, strace_args, timeout=15, log=True, follow=False):
        """-> (returncode or None on timeout, Result-like events list)"""
        for f in (self.res,):
            try:
                os.unlink(f)
            except FileNotFoundError:
                pass
        st = ["strace", "-qq"] + (["-f"] if follow else []) + ["-o", self.log if log else "/dev/null", "-s", "96"] + list(strace_args) + [
            "-E", "LD_PRELOAD=" + self.preload, "-E", "VERIF_INI=" + self.run.ini, "-E", "GLIBC_TUNABLES=glibc.malloc.tcache_count=0",
            "-E", "TZ=UTC", "-E", "ASAN_OPTIONS=detect_leaks=0:abort_on_error=1",
            os.path.join(drv.BUILD, "execdrv"), "oneshot", self.scen, self.res]
        import shlex
        extra = "".join("mount --bind %s %s && " % (shlex.quote(a), shlex.quote(b)) for a, b in BINDS)
        cmd = ["unshare", "-m", "--propagation", "private", "sh", "-c", 'mount --bind "$1" "$2" && shift 2 && ' + extra + 'exec "$@"', "sh",
               self.etc, self.run.etc] + st
        try:
            p = subprocess.run(cmd, env={"PATH": "/usr/bin:/bin"}, stdin=subprocess.DEVNULL, stdout=subprocess.DEVNULL,
                               stderr=subprocess.PIPE, timeout=timeout, cwd=self.dir)
            rc = p.returncode
        except subprocess.TimeoutExpired:
            subprocess.run(["pkill", "-9", "-f", self.scen], stderr=subprocess.DEVNULL)
            rc = None
        try:
            with open(self.res, "rb") as f:
                events = drv.decode_events(f.read())
        except FileNotFoundError:
            events = []
        return rc, events

    def parse_log(self):
        """-> list of dicts {name, ordinal, text, phase} ; phase 0 before MARK1, 1 in window [1,2), 2 in [2,3), 3 after; plus signals"""
        calls, signals = [], []
        counts = {}
        phase = 0
        callno = 0
        try:
            f = open(self.log, "r", errors="replace")
        except FileNotFoundError:
            return calls, signals
        with f:
            for ln in f:
                ln = ln.rstrip("\n")
                if "--- SIG" in ln:
                    signals.append((phase, ln.strip()[:160]))
                    continue
                m = LINE.match(ln)
                if not m:
                    continue
                name = m.group(1)
                counts[name] = counts.get(name, 0) + 1
                if name == "prctl" and MARK in ln:
                    mm = re.search(MARK + r"[^,]*, (?:0x)?(\d)", ln)
                    if mm:
                        phase = int(mm.group(1))
                        if phase == 1:
                            callno += 1
                        continue
                calls.append({"name": name, "ordinal": counts[name], "text": ln.strip()[:200], "phase": phase, "callno": callno})
        return calls, signals
