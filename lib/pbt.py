"""Generic 'Hypothesis + driver' engine used by most checks.

A check supplies
  strategy()            -> Hypothesis strategy of cases (pure data, replayable)
  evaluate(env, case)   -> raises common.Failure when the property is violated for the case
  classify(case)        -> (non-trivial key or None, [class labels])
and this module runs it in N forked workers (one driver set each), shrinks failures, re-executes
them three times outside Hypothesis, writes replay files and merges the evidence counters.
"""
import os
import sys

import drv
from common import Counters, Failure, Skip, hyp_search, confirm, run_workers, load_replay

_STATE = {}


class Env:
    """What evaluate() gets: drivers per build variant, run directory."""

    def __init__(self, run, builds, driver_kwargs=None):
        self.run = run
        self.builds = builds
        self.kw = driver_kwargs or {}
        self._drv = {}

    def driver(self, variant=None):
        variant = variant or next(iter(self.builds))
        if variant not in self._drv:
            # a build entry may carry driver arguments of its own (the same library in a different environment)
            kw = dict(self.kw)
            for k, v in (self.builds[variant].get("driver_kwargs") or {}).items():
                kw[k] = dict(kw.get(k) or {}, **v) if isinstance(v, dict) else v
            self._drv[variant] = drv.Driver(self.run, self.builds[variant], **kw)
        return self._drv[variant]

    def close(self):
        for d in self._drv.values():
            d.close()
        self._drv = {}


def _sample_default(case):
    return case


def _worker(args):
    wseed, n = args
    S = _STATE
    ctx = S["ctx"]
    env = Env(ctx.run, S["builds"], S["driver_kwargs"])
    local = Counters(ctx.known, wseed)
    evaluate, classify, sample = S["evaluate"], S["classify"], S["sample"]

    def prop(case):
        key, cls = classify(case)
        local.count(key, cls, sample=sample(case))
        try:
            evaluate(env, case)
        except Skip as sk:
            local.extra["skipped_unconstructible"] = local.extra.get("skipped_unconstructible", 0) + 1
            local.extra.setdefault("skip_reason_example", str(sk)[:200])
        except Failure as f:
            if local.is_known(f.key):
                local.known_hit(f.key, f.what)
                return
            raise

    fail = None
    try:
        f = hyp_search(prop, S["strategy"](), n, wseed)
        if f is not None:
            ok, last = confirm(lambda c: evaluate(env, c), f.case)
            if ok:
                fail = {"case": f.case, "what": last.what, "observed": last.observed, "expected": last.expected}
            else:
                local.inconclusive.append("unreproducible (not 3/3) failure dropped: " + f.what)
    finally:
        env.close()
    return local.export(), fail


def run(ctx, builds, strategy, evaluate, classify, nworkers, per_worker, sample=None, driver_kwargs=None,
        fixed_cases=(), variants=None):
    """Main entry for a check.  builds: dict variant -> build dict (already built).
    variants: build names drawn per case (field "variant" of the case dict): the same generated cases spread over several builds."""
    if variants and not ctx.replay:
        from hypothesis import strategies as _st
        base_strategy, base_classify = strategy, classify
        strategy = lambda: _st.tuples(base_strategy(), _st.sampled_from(list(variants))).map(lambda t: dict(t[0], variant=t[1]))

        def classify(c):
            k, cls = base_classify(c)
            v = c.get("variant", variants[0])
            return ((k, v) if (k is not None and v != variants[0]) else k), list(cls) + ["build:" + v]
    _STATE.update({"ctx": ctx, "builds": builds, "strategy": strategy, "evaluate": evaluate,
                   "classify": classify, "sample": sample or _sample_default, "driver_kwargs": driver_kwargs})
    if ctx.replay:
        case, _ = load_replay(ctx.replay)
        env = Env(ctx.run, builds, driver_kwargs)
        key, cls = classify(case)
        ctx.count(key or "replay", cls, sample=(sample or _sample_default)(case))
        ctx.nontrivial.add("replay-1")
        ctx.nontrivial.add("replay-2")
        try:
            evaluate(env, case)
            print("replay: property holds for this case")
        except Failure as f:
            if ctx.is_known(f.key):
                ctx.known_hit(f.key, f.what)
            else:
                ctx.violation(case, f.observed, f.expected, f.what)
        env.close()
        return
    # saved regression cases (seconds-long replay tier) run first, outside Hypothesis
    if fixed_cases:
        env = Env(ctx.run, builds, driver_kwargs)
        for case in fixed_cases:
            key, cls = classify(case)
            ctx.count(key, list(cls) + ["fixed-case"], sample=(sample or _sample_default)(case))
            try:
                evaluate(env, case)
            except Failure as f:
                if ctx.is_known(f.key):
                    ctx.known_hit(f.key, f.what)
                    continue
                ok, last = confirm(lambda c: evaluate(env, c), case)
                if ok:
                    ctx.violation(case, last.observed, last.expected, last.what)
        env.close()
    results = run_workers(_worker, nworkers, [(ctx.seed * 1000 + i, per_worker) for i in range(nworkers)])
    seen = set()
    for out, fail in results:
        ctx.merge(out)
        if fail and fail["what"] not in seen:
            seen.add(fail["what"])
            ctx.violation(fail["case"], fail["observed"], fail["expected"], fail["what"])
