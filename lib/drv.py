"""Python side of the execdrv protocol: scenario encoding, event decoding, driver lifecycle."""
import os
import shutil
import struct
import subprocess
import glob

from build import VERIF, sanitizer_preload

BUILD = os.path.join(VERIF, "build")
ARGDUMP = os.path.join(BUILD, "argdump")


def _b(x):
    if isinstance(x, bytes):
        return x
    if isinstance(x, str):
        return x.encode("utf-8", "surrogateescape")
    if isinstance(x, bool):
        return b"1" if x else b"0"
    if isinstance(x, int):
        return str(x).encode()
    raise TypeError(type(x))


def op(code, *args):
    out = [code.encode(), struct.pack("<I", len(args))]
    for a in args:
        a = _b(a)
        out.append(struct.pack("<I", len(a)))
        out.append(a)
    return b"".join(out)


def vec(v):
    """Vector spec: None => NULL pointer, list of bytes => entries, ('R', count, bytes) => repeated."""
    if v is None:
        return b"N"
    if isinstance(v, tuple) and v and v[0] == "R":
        return b"R" + struct.pack("<II", v[1], len(v[2])) + v[2]
    return b"L" + b"".join(struct.pack("<I", len(e)) + e for e in v)


def vec_list(v):
    """Expand a vector spec to a python list (or None)."""
    if v is None:
        return None
    if isinstance(v, tuple) and v and v[0] == "R":
        return [v[2]] * v[1]
    return list(v)


def op_exec(kind, path, argv, envp=(), ret=-1, err=2, real=False, snap=False, tno=None, callno=0):
    a = [1 if kind in (1, "e", "execve") else 0, path, vec(argv), vec(envp), ret, err, 1 if real else 0,
         1 if snap else 0]
    if tno is not None:
        a += [tno, callno]
    return op("X", *a)


def op_env(entries):
    """entries: list of bytes => environ := entries; None => environ = NULL."""
    if entries is None:
        return op("E", b"N")
    return op("E", b"L", *entries)


class Event:
    __slots__ = ("code", "f")

    def __init__(self, code, f):
        self.code = code
        self.f = f

    def __repr__(self):
        return "Event(%r,%r)" % (self.code, [x[:60] for x in self.f])


def make_utmp(path, n=512):
    """login records (USER_PROCESS) for the terminals pts/0 .. pts/<n-1>, each logged in from its own remote address 10.77.<hi>.<lo>;
    -> {line: address text}"""
    recs, addr = [], {}
    for k in range(n):
        line = b"pts/%d" % k
        ip = bytes([10, 77, k >> 8, k & 255])
        addr[line] = "10.77.%d.%d" % (k >> 8, k & 255)
        recs.append(struct.pack("<h2xi32s4s32s256shhiii16s20s", 7, 1000 + k, line, b"%04d" % k, b"user%d" % k, b"host%d.example.net" % k, 0, 0, 0,
                                1700000000, 0, ip + b"\0" * 12, b""))
    with open(path, "wb") as f:
        f.write(b"".join(recs))
    return addr


def decode_events(data):
    evs = []
    pos = 0
    n = len(data)
    while pos + 5 <= n:
        code = chr(data[pos])
        (nf,) = struct.unpack_from("<I", data, pos + 1)
        pos += 5
        f = []
        ok = True
        for _ in range(nf):
            if pos + 4 > n:
                ok = False
                break
            (l,) = struct.unpack_from("<I", data, pos)
            pos += 4
            if pos + l > n:
                ok = False
                break
            f.append(data[pos:pos + l])
            pos += l
        if not ok:
            evs.append(Event("!", [b"truncated"]))
            break
        evs.append(Event(code, f))
    return evs


class Result:
    def __init__(self, status, timedout, events):
        self.status = status
        self.timedout = timedout
        self.events = events

    @property
    def signaled(self):
        return os.WIFSIGNALED(self.status)

    @property
    def termsig(self):
        return os.WTERMSIG(self.status) if os.WIFSIGNALED(self.status) else 0

    @property
    def exitcode(self):
        return os.WEXITSTATUS(self.status) if os.WIFEXITED(self.status) else None

    @property
    def clean(self):
        return (not self.timedout) and os.WIFEXITED(self.status) and os.WEXITSTATUS(self.status) == 0

    def of(self, code):
        return [e for e in self.events if e.code == code]

    def errors(self):
        return [(e.f[0].decode(), int(e.f[1])) for e in self.events if e.code == "E"]

    def describe(self):
        return "status=%#x timedout=%s events=%s" % (self.status, self.timedout,
                                                      "".join(e.code for e in self.events))


def parse_sinkstate(b):
    """'name=len[:hash];...' -> dict name -> str"""
    d = {}
    for part in b.decode().split(";"):
        if part:
            k, _, v = part.partition("=")
            d[k] = v
    return d


def parse_dump(ev):
    """'G' event -> dict name -> (type, fd, content)   (dgram content => list of datagrams)"""
    d = {}
    f = ev.f
    for i in range(0, len(f), 4):
        name = f[i].decode()
        typ = int(f[i + 1])
        fd = int(f[i + 2])
        content = f[i + 3]
        if typ == 3:
            content = split_dgrams(content)
        elif typ == 2 and content == b"\x01ABSENT":
            content = None
        d[name] = (typ, fd, content)
    return d


def split_dgrams(b):
    out = []
    pos = 0
    while pos + 4 <= len(b):
        (l,) = struct.unpack_from("<I", b, pos)
        out.append(b[pos + 4:pos + 4 + l])
        pos += 4 + l
    return out


class Driver:
    """One long-lived execdrv process preloaded with a given libsnoopy build.

    The configuration path is compiled into the library, so every driver runs in its own mount
    namespace with a private directory bind-mounted over <run>/etc: concurrent drivers sharing
    one build do not see each other's snoopy.ini."""
    _n = 0

    def __init__(self, run, build, timeout_ms=20000, extra_preload=(), extra_env=None, san_opts="", binds=(), utmp=None, secure=False, loginuid=None):
        # loginuid: the audit login uid of the session the driver belongs to (what pam_loginuid sets for cron / sshd sessions; inherited by
        # every descendant, read by the C library's getlogin_r() before it looks at the terminal)
        self.loginuid = loginuid
        # secure: the driver itself is a set-uid-root program started by another user (AT_SECURE: the loader ignores LD_PRELOAD, the C
        # library's secure_getenv() returns nothing); the libraries come in through an /etc/ld.so.preload of the driver's own namespace
        self.secure = secure
        # utmp: a generated login-records file that becomes /run/utmp (= /var/run/utmp) inside the driver's mount namespace
        self.utmp = utmp
        # binds: (source, target) pairs bind-mounted inside the driver's private mount namespace: system files with generated content
        self.binds = list(binds)
        self.run = run
        self.build = build
        Driver._n += 1
        tag = "%s-%d-%d" % (build["name"], os.getpid(), Driver._n)
        self.asan_dir = os.path.join(run.dir, "san-" + tag)
        self.out = os.path.join(run.out, tag)          # private sink directory
        self.etc = os.path.join(run.dir, "etc-" + tag)  # private view of the compiled-in sysconfdir
        self.ini = os.path.join(self.etc, "snoopy.ini")
        for d_ in (self.asan_dir, self.out, self.etc):
            os.makedirs(d_, exist_ok=True)
        os.chmod(self.asan_dir, 0o777)
        os.chmod(self.out, 0o777)
        os.chmod(self.etc, 0o755)
        pre = []
        sp = sanitizer_preload(build)
        if sp:
            pre.append(sp)
        pre += list(extra_preload)
        pre += [build["lib"], os.path.join(BUILD, "librecorder.so")]
        env = {
            "PATH": "/usr/bin:/bin",
            "LD_PRELOAD": " ".join(pre),
            "VERIF_INI": run.ini,
            "VERIF_TIMEOUT_MS": str(timeout_ms),
            "ASAN_OPTIONS": "detect_leaks=0:abort_on_error=1:log_path=%s/asan:allocator_may_return_null=1:"
                            "detect_stack_use_after_return=0:handle_abort=0%s" % (self.asan_dir, san_opts),
            "UBSAN_OPTIONS": "print_stacktrace=1:abort_on_error=1:log_path=%s/ubsan" % self.asan_dir,
            "TSAN_OPTIONS": "log_path=%s/tsan:exitcode=66:report_signal_unsafe=0" % self.asan_dir,
            "TZ": "UTC",
            # freed chunks parked in the per-thread cache would count as "in use" in mallinfo2()
            "GLIBC_TUNABLES": "glibc.malloc.tcache_count=0",
        }
        if extra_env:
            env.update(extra_env)
        self.env = env
        self.p = None
        self.start()

    def start(self):
        import fcntl

        def hi(fd):
            n = fcntl.fcntl(fd, fcntl.F_DUPFD, 100)
            os.close(fd)
            return n
        c_r, c_w = os.pipe()
        r_r, r_w = os.pipe()
        c_r, c_w, r_r, r_w = hi(c_r), hi(c_w), hi(r_r), hi(r_w)
        os.set_inheritable(c_w, False)
        os.set_inheritable(r_r, False)

        def pre():
            if getattr(self, "loginuid", None) is not None:
                try:
                    with open("/proc/self/loginuid", "w") as f:
                        f.write(str(self.loginuid))
                except OSError:
                    pass
            os.dup2(c_r, 3)
            os.dup2(r_w, 4)
            os.close(c_r)
            os.close(r_w)
        self.errpath = os.path.join(self.run.dir, "drv-stderr-%d-%d.log" % (os.getpid(), Driver._n))
        import shlex
        extra = ""
        prog = os.path.join(BUILD, "execdrv")
        launch = 'exec "$@"'
        if getattr(self, "secure", False):
            base = os.path.join(self.run.dir, "secure-" + os.path.basename(self.out))
            for sub in ("upper", "work"):
                os.makedirs(os.path.join(base, sub), exist_ok=True)
            with open(os.path.join(base, "preload"), "w") as f:
                f.write("\n".join(self.env["LD_PRELOAD"].split()) + "\n")
            prog = os.path.join(self.out, "execdrv-setuid")
            shutil.copy(os.path.join(BUILD, "execdrv"), prog)
            os.chown(prog, 0, 0)
            os.chmod(prog, 0o4755)
            extra += "mount -t overlay overlay -o lowerdir=/etc,upperdir=%s,workdir=%s /etc && cp %s /etc/ld.so.preload && chmod 644 /etc/ld.so.preload && " % (
                shlex.quote(os.path.join(base, "upper")), shlex.quote(os.path.join(base, "work")), shlex.quote(os.path.join(base, "preload")))
            launch = 'exec setpriv --reuid 4301 --regid 4301 --clear-groups -- "$@"'
        extra += "".join("mount --bind %s %s && " % (shlex.quote(a), shlex.quote(b)) for a, b in getattr(self, "binds", ()))
        if getattr(self, "utmp", None):
            extra += "mount -t tmpfs tmpfs /run && cp %s /run/utmp && chmod 644 /run/utmp && " % shlex.quote(self.utmp)
        if "syslog" in self.build["name"]:
            # the C library's syslog() connects to /dev/log from inside libc, where no interposer sees it: builds with the syslog
            # output get a private /dev (a tmpfs copy of the nodes a scenario uses) in which /dev/log leads to the driver's devlog sink
            D = shlex.quote(os.path.join(self.run.dir, "dev-" + os.path.basename(self.out)))
            extra += ("mkdir -p %s && mount -t tmpfs -o mode=755 tmpfs %s && cp -a /dev/null /dev/zero /dev/full /dev/random /dev/urandom "
                      "/dev/tty /dev/ptmx /dev/console /dev/fd /dev/stdin /dev/stdout /dev/stderr %s/ && mkdir %s/pts %s/shm && "
                      "mount --bind /dev/pts %s/pts && mount --bind /dev/shm %s/shm && ln -s %s %s/log && mount --move %s /dev && "
                      % (D, D, D, D, D, D, D, shlex.quote(os.path.join(self.out, "devlog.sock")), D, D))
        cmd = ["unshare", "-m", "--propagation", "private", "sh", "-c",
               'mount --bind "$1" "$2" && shift 2 && ' + extra + launch, "sh", self.etc, self.run.etc,
               prog]
        self.p = subprocess.Popen(cmd, env=self.env, close_fds=False,
                                  preexec_fn=pre,
                                  stdin=subprocess.DEVNULL, stdout=subprocess.DEVNULL,
                                  stderr=open(self.errpath, "ab"),
                                  cwd=self.run.dir)
        os.close(c_r)
        os.close(r_w)
        self.cw = c_w
        self.rr = r_r

    def close(self):
        if self.p:
            try:
                os.close(self.cw)
                os.close(self.rr)
            except OSError:
                pass
            try:
                self.p.kill()
            except OSError:
                pass
            self.p.wait()
            self.p = None

    def _read(self, n):
        chunks = []
        while n:
            c = os.read(self.rr, min(n, 1 << 20))
            if not c:
                raise EOFError("driver died")
            chunks.append(c)
            n -= len(c)
        return b"".join(chunks)

    def scenario(self, ops):
        blob = b"".join(ops)
        data = struct.pack("<I", len(blob)) + blob
        for attempt in (0, 1):
            try:
                off = 0
                while off < len(data):
                    off += os.write(self.cw, data[off:off + (1 << 20)])
                (total,) = struct.unpack("<I", self._read(4))
                body = self._read(total)
                break
            except (EOFError, BrokenPipeError, OSError) as e:
                st = None
                try:
                    st = self.p.wait(timeout=5)
                except Exception:
                    pass
                import sys
                try:
                    errtxt = open(self.errpath, "rb").read()[-600:]
                except OSError:
                    errtxt = b""
                sys.stderr.write("drv: driver process ended unexpectedly (%r, status %r, stderr %r), restarting\n" % (e, st, errtxt))
                self.close()
                self.start()
                if attempt:
                    raise
        (st,) = struct.unpack_from("<i", body, 0)
        to = body[4]
        return Result(st, bool(to), decode_events(body[5:]))

    def sanitizer_reports(self, clear=True):
        out = []
        for f in sorted(glob.glob(os.path.join(self.asan_dir, "*"))):
            try:
                with open(f, "r", errors="replace") as fh:
                    out.append(fh.read())
                if clear:
                    os.unlink(f)
            except OSError:
                pass
        return out
