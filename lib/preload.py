"""Shared machinery for the snoopyctl enable/disable checks (C18, C19, C20)."""
import itertools
import os
import time
import shutil
import subprocess

from hypothesis import strategies as st

import gen

PH = b"@P@"     # placeholder for the library path inside generated contents (keeps cases replayable)

# fixed line alphabet for the exhaustive part
ALPHABET = [
    PH,                                   # own entry
    PH + b" ",                            # own entry + trailing blank
    PH + b"\t# note",                     # own entry + comment
    b"# " + PH,                           # comment mentioning the own path
    b"# libsnoopy.so or /x/libsnoopy.so", # comment mentioning the library twice
    b"/usr/lib/libfoo.so",                # foreign entry
    b"/opt/other/libsnoopy.so",           # another active instance
    b"",                                  # blank line
    PH + b"x",                            # path having the library path as prefix
    b"/pre" + PH,                         # path having the library path as suffix
    PH + b" /usr/lib/b.so",               # own entry sharing its line with another library
    b"/usr/lib/a.so\r",                   # CR-LF ending
    PH + b" # c\r",                       # own entry + comment on a CR-LF line
    b"# caf\xc3\xa9 \xff libsnoopy.so",     # comment with UTF-8 / Latin-1 bytes (0xFF is not end-of-file, >= 0x80 is not a control character)
]


def exhaustive_contents(maxlines):
    yield None          # file absent
    for n in range(0, maxlines + 1):
        for combo in itertools.product(range(len(ALPHABET)), repeat=n):
            body = b"\n".join(ALPHABET[i] for i in combo)
            if n == 0:
                yield b""
                continue
            yield body + b"\n"
            yield body


@st.composite
def st_line(draw):
    k = draw(st.sampled_from(["own", "own", "ownvar", "foreign", "foreign", "comment", "blank", "other", "near", "shared", "crlf", "indent"]))
    if k == "own":
        return PH
    if k == "ownvar":
        return PH + draw(st.sampled_from([b" ", b"\t", b"  \t ", b"# c", b" # c libsnoopy.so", b"#", b"\t#x",
                                          b" # c\r", b"\t# a\rb /usr/lib/libevil.so", b" # x\r /usr/lib/e.so", b" \r"]))
    if k == "foreign":
        return b"/" + draw(st.one_of(gen.ident_bytes(1, 8), st.just(b"opt/caf\xc3\xa9"), st.just(b"usr/\xffx"))) + b"/lib" + draw(gen.ident_bytes(1, 8)) + b".so" + draw(st.sampled_from([b"", b"", b" ", b" # c"]))
    if k == "comment":
        n = draw(st.integers(0, 3))
        parts = [draw(st.one_of(gen.text_bytes(0, 10), st.sampled_from([b"caf\xc3\xa9", b"\xff", b"na\xefve \xe2\x86\x92", b"\x80\x81"]))).replace(b"\n", b"")]
        for _ in range(n):
            parts.append(draw(st.sampled_from([b"libsnoopy.so", PH, b"/x/libsnoopy.so"])))
            parts.append(draw(gen.text_bytes(0, 6)).replace(b"\n", b""))
        return b"#" + b" ".join(parts)
    if k == "blank":
        return draw(st.sampled_from([b"", b"", b" ", b"\t"]))
    if k == "other":
        return draw(st.sampled_from([b"/opt/other/libsnoopy.so", b"/usr/lib64/libsnoopy.so # old", b"libsnoopy.so", b"/a/libsnoopy.so.1"]))
    if k == "near":
        return draw(st.sampled_from([PH + b"x", PH + b".1", b"/pre" + PH, PH[:-1] if False else PH + b"~", b"x" + PH]))
    if k == "shared":
        return PH + draw(st.sampled_from([b" ", b"\t", b"  "])) + b"/usr/lib/" + draw(gen.ident_bytes(1, 6)) + b".so" + draw(st.sampled_from([b"", b" # c", b" /lib/c.so"]))
    if k == "crlf":
        return draw(st.sampled_from([PH, b"/usr/lib/a.so", b"# c"])) + b"\r"
    return draw(st.sampled_from([b" ", b"\t"])) + draw(st.sampled_from([PH, b"# libsnoopy.so", b"/usr/lib/a.so"]))


@st.composite
def st_content(draw):
    if draw(st.sampled_from([False] * 15 + [True])):
        return None
    lines = draw(st.lists(st_line(), min_size=0, max_size=8))
    body = b"\n".join(lines)
    if lines and draw(st.sampled_from([True, True, False])):
        body += b"\n"
    return body


class Ctl:
    """Runs the snoopyctl built from the working tree against a private preload file."""

    def __init__(self, build, workdir):
        self.ctl = build["ctl"]
        self.dir = workdir
        os.makedirs(workdir, exist_ok=True)
        self.libdir = os.path.join(workdir, "L")
        os.makedirs(self.libdir, exist_ok=True)
        self.P = os.path.join(self.libdir, "libsnoopy.so").encode()
        if not os.path.exists(self.P):
            shutil.copy(build["lib"], self.P)
        self.file = os.path.join(workdir, "ld.so.preload")
        self.cwd = os.path.join(workdir, "elsewhere")      # the commands never run from the directory of the file
        os.makedirs(self.cwd, exist_ok=True)
        self.env = {"PATH": "/usr/bin:/bin", "SNOOPY_TEST_LD_SO_PRELOAD_PATH": self.file,
                    "SNOOPY_TEST_LIBSNOOPY_SO_PATH": self.P.decode(),
                    "ASAN_OPTIONS": "detect_leaks=0:abort_on_error=1", "UBSAN_OPTIONS": "abort_on_error=1:print_stacktrace=1"}

    def subst(self, content):
        return None if content is None else content.replace(PH, self.P)

    def put(self, content, keep_stray=False, old_mtime=False, symlink=False):
        """old_mtime: the file was last changed two days ago (as a real /etc/ld.so.preload usually was);
        symlink: ld.so.preload is a symbolic link with a RELATIVE target into a subdirectory (the commands are run from another directory)"""
        for f in os.listdir(self.dir):
            if f.startswith("ld.so.preload") and not (keep_stray and f != "ld.so.preload"):
                pth = os.path.join(self.dir, f)
                if os.path.isdir(pth) and not os.path.islink(pth):
                    shutil.rmtree(pth, ignore_errors=True)
                else:
                    os.unlink(pth)
        if content is not None:
            target = self.file
            if symlink:
                os.makedirs(os.path.join(self.dir, "ld.so.preload.d"), exist_ok=True)
                target = os.path.join(self.dir, "ld.so.preload.d", "active")
                os.symlink("ld.so.preload.d/active", self.file)
            with open(target, "wb") as f:
                f.write(content)
            if old_mtime:
                t = time.time() - 2 * 86400
                os.utime(target, (t, t))

    def get(self):
        try:
            with open(self.file, "rb") as f:
                return f.read()
        except FileNotFoundError:
            return None

    def stray_files(self):
        return sorted(f for f in os.listdir(self.dir) if f.startswith("ld.so.preload") and f not in ("ld.so.preload", "ld.so.preload.d"))

    def run(self, action, timeout=20, closed=()):
        """closed: standard descriptors (0, 1, 2) the command is started WITHOUT (like `cmd >&-`)."""
        if not closed:
            p = subprocess.run([self.ctl, action], env=self.env, stdin=subprocess.DEVNULL, stdout=subprocess.PIPE,
                               stderr=subprocess.PIPE, timeout=timeout, cwd=self.cwd)
            return p.returncode, p.stdout, p.stderr

        def pre():
            for fd in closed:
                try:
                    os.close(fd)
                except OSError:
                    pass
        p = subprocess.run([self.ctl, action], env=self.env, stdin=subprocess.DEVNULL, stdout=subprocess.DEVNULL,
                           stderr=subprocess.DEVNULL, timeout=timeout, preexec_fn=pre, close_fds=True, cwd=self.cwd)
        return p.returncode, b"", b""
