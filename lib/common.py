"""Check context: tiers, seeds, evidence, known findings, violations, replay files."""
import argparse
import hashlib
import json
import os
import random
import sys
import time
import traceback

from build import VERIF, Run, BuildError, infra_fail

EVIDENCE_DIR = os.path.join(VERIF, "evidence")
REPLAY_DIR = os.path.join(VERIF, "replays")
KNOWN_FILE = os.path.join(VERIF, "known_findings.json")


def jsonable(x):
    if isinstance(x, bytes):
        try:
            s = x.decode("ascii")
            if all(32 <= ord(c) < 127 for c in s):
                return s
        except UnicodeDecodeError:
            pass
        printable = sum(1 for c in x if 32 <= c < 127 or c in (9, 10, 13))
        if x and printable >= 0.85 * len(x) and len(x) <= 8192:
            return {"text": x.decode("latin-1").encode("unicode_escape").decode("ascii").replace("\\n", "\n")}
        return {"hex": x.hex()} if len(x) <= 4096 else {"hex_prefix": x[:256].hex(), "len": len(x),
                                                        "sha1": hashlib.sha1(x).hexdigest()}
    if isinstance(x, (list, tuple)):
        return [jsonable(i) for i in x]
    if isinstance(x, dict):
        return {str(k): jsonable(v) for k, v in x.items()}
    if isinstance(x, (set, frozenset)):
        return sorted(jsonable(i) for i in x)
    if isinstance(x, (int, float, str, bool)) or x is None:
        return x
    return repr(x)


def enc_case(x):
    """Lossless JSON encoding for replay files (bytes -> {"b64":...})."""
    import base64
    if isinstance(x, bytes):
        return {"__b": base64.b64encode(x).decode()}
    if isinstance(x, tuple):
        return {"__t": [enc_case(i) for i in x]}
    if isinstance(x, list):
        return [enc_case(i) for i in x]
    if isinstance(x, dict):
        return {"__d": [[enc_case(k), enc_case(v)] for k, v in x.items()]}
    return x


def dec_case(x):
    import base64
    if isinstance(x, dict):
        if "__b" in x:
            return base64.b64decode(x["__b"])
        if "__t" in x:
            return tuple(dec_case(i) for i in x["__t"])
        if "__d" in x:
            return {dec_case(k): dec_case(v) for k, v in x["__d"]}
        return {k: dec_case(v) for k, v in x.items()}
    if isinstance(x, list):
        return [dec_case(i) for i in x]
    return x


class Counters:
    """Counting part of a check context; workers use one each and the parent merges them."""

    def __init__(self, known=None, seed=1):
        self.evaluations = 0
        self.nontrivial = set()
        self.classes = {}
        self.samples = []
        self.extra = {}
        self.violations = []
        self.known_hits = {}
        self.excluded = 0
        self.inconclusive = []
        self.rng = random.Random(seed)
        self.known = known or {}

    def is_known(self, key):
        return key is not None and key in self.known

    def known_hit(self, key, detail=""):
        """A failure matching a listed known finding: reported once, counted, search continues."""
        self.excluded += 1
        if key not in self.known_hits:
            self.known_hits[key] = detail
        return True

    def count(self, nontrivial_key=None, cls=None, sample=None):
        self.evaluations += 1
        if nontrivial_key is not None:
            self.nontrivial.add(nontrivial_key)
        if cls:
            for c in (cls if isinstance(cls, (list, tuple, set)) else [cls]):
                self.classes[c] = self.classes.get(c, 0) + 1
        if sample is not None:
            if len(self.samples) < 4:
                self.samples.append(jsonable(sample))
            elif nontrivial_key is not None and len(self.samples) < 8 and self.rng.random() < 0.02:
                self.samples.append(jsonable(sample))

    def merge(self, other):
        """Merge a worker's counters (dict from export())."""
        self.evaluations += other["evaluations"]
        self.nontrivial |= set(other["nontrivial"])
        for k, v in other["classes"].items():
            self.classes[k] = self.classes.get(k, 0) + v
        for s in other["samples"]:
            if len(self.samples) < 10:
                self.samples.append(s)
        self.excluded += other["excluded"]
        for k, v in other["known_hits"].items():
            self.known_hits.setdefault(k, v)
        self.violations += other["violations"]
        self.inconclusive += other["inconclusive"]
        for k, v in other.get("extra", {}).items():
            if isinstance(v, (int, float)) and isinstance(self.extra.get(k, 0), (int, float)):
                self.extra[k] = self.extra.get(k, 0) + v
            else:
                self.extra.setdefault(k, v)

    def export(self):
        return {"evaluations": self.evaluations, "nontrivial": list(self.nontrivial), "classes": self.classes,
                "samples": self.samples, "excluded": self.excluded, "known_hits": self.known_hits,
                "violations": self.violations, "inconclusive": self.inconclusive, "extra": self.extra}


class Ctx(Counters):
    def __init__(self, pid, level, rule, argv=None):
        ap = argparse.ArgumentParser()
        ap.add_argument("tier", nargs="?", default=os.environ.get("VERIF_TIER", "quick"))
        ap.add_argument("--replay", default=None)
        ap.add_argument("--seed", type=int, default=None)
        a = ap.parse_args(argv)
        self.pid = pid
        self.tier = "thorough" if a.tier.startswith("t") else "quick"
        self.quick = self.tier == "quick"
        seed = a.seed if a.seed is not None else int(os.environ.get("VERIF_SEED", "1") or "1")
        self.seed = seed if seed != 0 else 1
        self.replay = a.replay
        self.level = level
        self.rule = rule
        self.t0 = time.time()
        Counters.__init__(self, None, self.seed)
        self.assumptions = []
        self.known = self._load_known()
        self.run = Run(pid)

    # ---------------- known findings
    def _load_known(self):
        try:
            with open(KNOWN_FILE) as f:
                d = json.load(f)
        except FileNotFoundError:
            return {}
        out = {}
        for e in d.get("findings", []):
            if e.get("property") == self.pid and e.get("status") == "known":
                out[e["key"]] = e
        return out

    # ---------------- violations
    def violation(self, case, observed, expected=None, what=""):
        """Record a confirmed violation; writes the replay file."""
        os.makedirs(REPLAY_DIR, exist_ok=True)
        body = {"property": self.pid, "seed": self.seed, "tier": self.tier, "what": what,
                "case": enc_case(case), "observed": jsonable(observed), "expected": jsonable(expected)}
        h = hashlib.sha1(json.dumps(body["case"], sort_keys=True).encode()).hexdigest()[:12]
        path = os.path.join(REPLAY_DIR, "%s-%s.json" % (self.pid, h))
        with open(path, "w") as f:
            json.dump(body, f, indent=1)
        self.violations.append({"replay": path, "what": what, "observed": jsonable(observed),
                                "expected": jsonable(expected)})
        return path

    # ---------------- finish
    def write_evidence(self):
        os.makedirs(EVIDENCE_DIR, exist_ok=True)
        cov = {
            "evaluations": int(self.evaluations),
            "distinct_nontrivial": len(self.nontrivial),
            "rule": self.rule,
            "samples": self.samples[:10] if self.samples else ["(none recorded)"],
            "class_histogram": dict(sorted(self.classes.items(), key=lambda kv: -kv[1])[:150]),
            "excluded_as_known_finding": self.excluded,
            "known_findings_hit": self.known_hits,
            "inconclusive": self.inconclusive[:20],
        }
        cov.update(self.extra)
        ev = {"property_id": self.pid, "tier": self.tier, "seed": self.seed, "level": self.level,
              "coverage": cov, "assumptions": self.assumptions, "wall_s": round(time.time() - self.t0, 2),
              "violations": len(self.violations)}
        tmp = os.path.join(EVIDENCE_DIR, ".%s.json.tmp" % self.pid)
        with open(tmp, "w") as f:
            json.dump(ev, f, indent=1)
        os.replace(tmp, os.path.join(EVIDENCE_DIR, "%s.json" % self.pid))

    def finish(self):
        self.write_evidence()
        for k, d in self.known_hits.items():
            what = self.known[k].get("what", k) if k in self.known else k
            print("KNOWN-FINDING: property=%s %s [%s]" % (self.pid, what, k))
        for v in self.violations:
            print("VIOLATION property=%s replay=%s" % (self.pid, v["replay"]))
            print("  what: %s" % v["what"])
            print("  observed: %s" % json.dumps(v["observed"])[:1500])
            if v["expected"] is not None:
                print("  expected: %s" % json.dumps(v["expected"])[:1500])
        print("%s %s seed=%d evaluations=%d distinct_nontrivial=%d excluded_known=%d violations=%d wall=%.1fs" % (
            self.pid, self.tier, self.seed, self.evaluations, len(self.nontrivial), self.excluded,
            len(self.violations), time.time() - self.t0))
        sys.stdout.flush()
        self.run.cleanup()
        os._exit(1 if self.violations else 0)


def load_replay(path):
    with open(path) as f:
        d = json.load(f)
    return dec_case(d["case"]), d


def main_wrapper(fn):
    """Run a check's main; infrastructure problems exit 2 (never a VIOLATION line)."""
    try:
        fn()
    except BuildError as e:
        infra_fail(str(e))
    except SystemExit:
        raise
    except Exception:
        traceback.print_exc()
        infra_fail("unexpected harness exception")


# ---------------------------------------------------------------- hypothesis glue
def hyp_search(prop, strategy, max_examples, seed, max_shrinks_s=120):
    """Run `prop(case)` over generated cases.  prop raises Failure to report a failing case.
    Returns the (shrunk) failing case's Failure or None."""
    from hypothesis import given, settings, HealthCheck, Phase, seed as hseed

    last = {}

    @hseed(seed)
    @settings(max_examples=max_examples, database=None, deadline=None, derandomize=False,
              report_multiple_bugs=False, print_blob=False,
              suppress_health_check=[HealthCheck.too_slow, HealthCheck.data_too_large,
                                     HealthCheck.large_base_example],
              phases=[Phase.generate, Phase.shrink])
    @given(strategy)
    def t(case):
        try:
            prop(case)
        except Failure as f:
            f.case = case
            last["f"] = f
            raise

    try:
        t()
    except Failure:
        return last["f"]
    except BaseException:  # hypothesis may wrap the failure (e.g. Flaky)
        if "f" in last:
            return last["f"]
        raise
    return None


class Skip(Exception):
    """The harness could not construct the case in this sandbox: counted, never judged."""


class Failure(Exception):
    def __init__(self, what, observed=None, expected=None, key=None):
        super().__init__(what)
        self.what = what
        self.observed = observed
        self.expected = expected
        self.key = key
        self.case = None


def confirm(replay_fn, case, times=3):
    """Re-execute a failing case outside the generator; True iff it fails every time."""
    fails = 0
    last = None
    for _ in range(times):
        try:
            replay_fn(case)
        except Failure as f:
            fails += 1
            last = f
    return fails == times, last


def run_workers(fn, nworkers, args_list):
    """fork-based parallel map; fn(arg) -> picklable.  One forked child per argument (at most nworkers at a time), result pickled
    through a pipe.  A child that dies without delivering a result is an infrastructure error (exit 2) -- never a hang, never a verdict."""
    import pickle
    import select
    import traceback
    if nworkers <= 1 or len(args_list) <= 1:
        return [fn(a) for a in args_list]
    results = [None] * len(args_list)
    pending = list(enumerate(args_list))
    running = {}          # read fd -> (index, pid, chunks)
    failed = []
    try:
        while pending or running:
            while pending and len(running) < nworkers:
                idx, arg = pending.pop(0)
                r, w = os.pipe()
                sys.stdout.flush()
                sys.stderr.flush()
                pid = os.fork()
                if pid == 0:
                    code = 0
                    try:
                        try:
                            import ctypes
                            ctypes.CDLL(None).prctl(1, 9)        # PR_SET_PDEATHSIG: do not outlive the check
                        except Exception:
                            pass
                        os.close(r)
                        try:
                            data = pickle.dumps(("ok", fn(arg)))
                        except SystemExit as e:
                            data = pickle.dumps(("exit", e.code))
                        except BaseException:
                            data = pickle.dumps(("err", traceback.format_exc()))
                        with os.fdopen(w, "wb") as f:
                            f.write(data)
                    except BaseException:
                        code = 3
                    finally:
                        os._exit(code)
                os.close(w)
                running[r] = (idx, pid, [])
            ready, _, _ = select.select(list(running), [], [], 5.0)
            for r in ready:
                idx, pid, chunks = running[r]
                b = os.read(r, 1 << 20)
                if b:
                    chunks.append(b)
                    continue
                os.close(r)
                del running[r]
                try:
                    os.waitpid(pid, 0)
                except ChildProcessError:
                    pass
                try:
                    kind, val = pickle.loads(b"".join(chunks))
                except Exception:
                    kind, val = "dead", "worker %d ended without delivering a result" % idx
                if kind == "ok":
                    results[idx] = val
                else:
                    failed.append((idx, kind, val))
    finally:
        for r, (idx, pid, _) in running.items():
            try:
                os.kill(pid, 9)
                os.waitpid(pid, 0)
            except OSError:
                pass
    if failed:
        idx, kind, val = failed[0]
        if kind == "exit":
            sys.exit(val if isinstance(val, int) else 2)
        sys.stderr.write("INFRASTRUCTURE ERROR: worker %d failed (%s):\n%s\n" % (idx, kind, val))
        sys.exit(2)
    return results
