"""Hypothesis strategies shared by the checks: byte strings, exec requests, structured configs."""
import os
from hypothesis import strategies as st

# ---------------------------------------------------------------- bytes
NONUL = bytes(range(1, 256))
PRINTABLE = bytes(range(32, 127))


def sized(boundaries, lo, hi):
    """Sizes drawn from explicit boundary sets mixed with uniform draws (never collapses at small sizes)."""
    bs = [b for b in boundaries if lo <= b <= hi]
    parts = [st.integers(lo, min(hi, lo + 16)), st.integers(lo, hi)]
    if bs:
        parts.insert(0, st.sampled_from(bs))
    return st.one_of(*parts)


@st.composite
def bytes_nonul(draw, lo=0, hi=64, alphabet=None, boundaries=()):
    n = draw(sized(boundaries, lo, hi))
    if n > 256:
        # long strings: a short random pattern repeated (keeps generation cheap, shrinks well)
        pat = draw(st.binary(min_size=1, max_size=16)).replace(b"\0", b"\x01") or b"x"
        s = (pat * (n // len(pat) + 1))[:n]
    else:
        s = draw(st.binary(min_size=n, max_size=n))
        s = s.replace(b"\0", b"\x01")
    if alphabet is not None:
        s = bytes(alphabet[c % len(alphabet)] for c in s)
    return s


def text_bytes(lo=0, hi=40, boundaries=()):
    return bytes_nonul(lo, hi, alphabet=PRINTABLE, boundaries=boundaries)


IDENT = b"abcdefghijklmnopqrstuvwxyzABCDEFGHIJKLMNOPQRSTUVWXYZ0123456789_"


def ident_bytes(lo=1, hi=12):
    return bytes_nonul(lo, hi, alphabet=IDENT)


# ---------------------------------------------------------------- exec requests
@st.composite
def st_vector(draw, allow_null=True, max_entries=12, big=True, entry=None):
    """argv/envp shapes: None (NULL), [] ({NULL}), normal, many entries, long strings."""
    if entry is None:
        entry = st.one_of(bytes_nonul(0, 24), text_bytes(0, 24), st.just(b""))
    kinds = ["normal"] * 6 + ["empty"] * 2
    if allow_null:
        kinds += ["null"] * 2
    if big:
        kinds += ["many", "long"]
    k = draw(st.sampled_from(kinds))
    if k == "null":
        return None
    if k == "empty":
        return []
    if k == "normal":
        return draw(st.lists(entry, min_size=1, max_size=max_entries))
    if k == "many":
        n = draw(st.sampled_from([100, 1000, 5000]))
        e = draw(bytes_nonul(0, 8))
        return ("R", n, e)
    n = draw(st.sampled_from([4095, 4096, 70000, 1 << 20]))
    first = draw(st.lists(entry, max_size=2))
    pat = draw(bytes_nonul(1, 4))
    return first + [(pat * (n // len(pat) + 1))[:n]]


def vec_class(v):
    if v is None:
        return "null"
    if isinstance(v, tuple):
        return "many"
    if len(v) == 0:
        return "empty"
    tot = sum(len(e) for e in v)
    if tot > 4000:
        return "long"
    if any(any(c < 32 or c > 126 for c in e) for e in v):
        return "binary"
    if any(len(e) == 0 for e in v):
        return "emptystr"
    return "plain"


def st_path(big=True):
    opts = [st.just(b"/bin/true"), text_bytes(1, 40).map(lambda b: b"/" + b), bytes_nonul(1, 30), st.just(b"")]
    if big:
        opts.append(st.sampled_from([4096, 70000]).map(lambda n: b"/" + b"p" * n))
    return st.one_of(*opts)


def st_envp(big=True):
    entry = st.one_of(st.builds(lambda k, v: k + b"=" + v, ident_bytes(1, 10), bytes_nonul(0, 30)),
                      bytes_nonul(0, 20))
    return st_vector(allow_null=True, max_entries=10, big=big, entry=entry)


# ---------------------------------------------------------------- structured configuration
FACILITIES = ["AUTH", "AUTHPRIV", "CRON", "DAEMON", "FTP", "KERN", "LOCAL0", "LOCAL1", "LOCAL2", "LOCAL3",
              "LOCAL4", "LOCAL5", "LOCAL6", "LOCAL7", "LPR", "MAIL", "NEWS", "SYSLOG", "USER", "UUCP"]
FACILITY_NUM = {"KERN": 0, "USER": 1, "MAIL": 2, "DAEMON": 3, "AUTH": 4, "SYSLOG": 5, "LPR": 6, "NEWS": 7,
                "UUCP": 8, "CRON": 9, "AUTHPRIV": 10, "FTP": 11, "LOCAL0": 16, "LOCAL1": 17, "LOCAL2": 18,
                "LOCAL3": 19, "LOCAL4": 20, "LOCAL5": 21, "LOCAL6": 22, "LOCAL7": 23}
LEVELS = ["EMERG", "ALERT", "CRIT", "ERR", "WARNING", "NOTICE", "INFO", "DEBUG"]
LEVEL_NUM = {n: i for i, n in enumerate(LEVELS)}

DET_SOURCES = ["snoopy_literal", "env", "cmdline", "filename", "failure", "noop", "snoopy_version"]
ALL_SOURCES = ["cgroup", "cmdline", "cwd", "datetime", "domain", "egid", "egroup", "env", "env_all", "euid",
               "eusername", "filename", "gid", "group", "hostname", "ipaddr", "login", "pid", "ppid", "rpname",
               "sid", "snoopy_configure_command", "snoopy_literal", "snoopy_threads", "snoopy_version",
               "systemd_unit_name", "tid", "tid_kernel", "timestamp", "timestamp_ms", "timestamp_us", "tty",
               "tty_uid", "tty_username", "uid", "username", "failure", "noop"]
FILTERS = ["exclude_spawns_of", "exclude_uid", "only_root", "only_tty", "only_uid", "noop"]
OUTPUTS = ["devlog", "devnull", "devtty", "file", "socket", "stderr", "stdout", "noop"]


def ini_safe(v):
    """True iff `key = v` parses back to exactly v (see DESIGN appendix A.1)."""
    if b"\n" in v or b"\r" in v or b"\0" in v:
        return False
    if v != v.strip(b" \t\v\f\r\n"):
        return False
    for i in range(1, len(v)):
        if v[i] == 0x3b and v[i - 1] in b" \t\v\f\r":
            return False
    if v[:1] == b";":
        return False   # "k = ;x": the ';' is preceded by whitespace
    if len(v) >= 1 and v[:1] in (b'"', b"'") and v[-1:] == v[:1]:
        return False
    return True


def make_safe(v):
    """Map arbitrary bytes to an INI-safe value (construction instead of rejection)."""
    v = v.replace(b"\n", b"_").replace(b"\r", b"_").replace(b"\0", b"_")
    v = v.strip(b" \t\v\f")
    out = bytearray()
    for c in v:
        if c == 0x3b and (not out or out[-1] in b" \t\v\f"):
            out += b"_"
        else:
            out.append(c)
    v = bytes(out)
    if len(v) >= 1 and v[:1] in (b'"', b"'") and v[-1:] == v[:1]:
        v = b"q" + v[1:]
    return v


def render_ini(options, section=b"snoopy"):
    """options: list of (key bytes, value bytes)."""
    lines = [b"[" + section + b"]"]
    for k, v in options:
        # a value starting with ';' directly after "= " would be an inline comment: no blank then
        lines.append(k + (b"=" if v[:1] == b";" else b" = ") + v)
    return b"\n".join(lines) + b"\n"


@st.composite
def st_format_simple(draw, sources=None, max_pieces=5):
    """A message format from literals and tags (values are INI-safe)."""
    sources = sources or ALL_SOURCES
    pieces = []
    for _ in range(draw(st.integers(0, max_pieces))):
        if draw(st.booleans()):
            pieces.append(draw(text_bytes(0, 12)).replace(b"%", b"p"))
        else:
            name = draw(st.sampled_from(sources)).encode()
            if name in (b"snoopy_literal", b"env", b"datetime", b"cgroup") and draw(st.booleans()):
                arg = draw(ident_bytes(0, 10))
                if name == b"datetime":
                    arg = draw(st.sampled_from([b"%s", b"%Y-%m-%d", b"%H", b""]))
                pieces.append(b"%{" + name + b":" + arg + b"}")
            else:
                pieces.append(b"%{" + name + b"}")
    return make_safe(b"".join(pieces))


@st.composite
def st_chain_simple(draw, uid=0):
    els = []
    for _ in range(draw(st.integers(0, 4))):
        k = draw(st.sampled_from(["only_root", "only_uid", "exclude_uid", "only_tty", "exclude_spawns_of", "noop",
                                  "bogus", ""]))
        if k in ("only_uid", "exclude_uid"):
            ids = draw(st.lists(st.sampled_from([0, 1, 1000, 65534]), min_size=1, max_size=3))
            els.append("%s:%s" % (k, ",".join(map(str, ids))))
        elif k == "exclude_spawns_of":
            names = draw(st.lists(st.sampled_from(["execdrv", "python3", "nosuchprog", "sh"]), min_size=1, max_size=3))
            els.append("%s:%s" % (k, ",".join(names)))
        else:
            els.append(k)
    return ";".join(els).encode()


@st.composite
def st_config(draw, outdir, sources=None, ident_sources=("snoopy_literal", "uid", "pid", "failure")):
    """Structured configuration.  Returns dict: {'kind', 'ini' (bytes or None), 'opts' (list)}"""
    kind = draw(st.sampled_from(["opts"] * 10 + ["absent", "empty", "garbage", "dir"]))
    if kind == "absent":
        return {"kind": kind, "ini": None, "opts": []}
    if kind == "dir":
        return {"kind": kind, "ini": None, "opts": [], "dir": True}
    if kind == "empty":
        return {"kind": kind, "ini": b"", "opts": []}
    if kind == "garbage":
        return {"kind": kind, "ini": draw(st.binary(max_size=300)), "opts": []}
    opts = []
    out = draw(st.sampled_from(["default", "file", "filetpl", "stdout", "stderr", "devnull", "devtty", "socket",
                                "devlog", "noop", "bogus", "file-noarg", "file-missingdir", "file-devfull", "file-isdir",
                                "socket-missing"]))
    o = outdir.encode()
    if out == "file":
        opts.append((b"output", b"file:" + o + b"/log"))
    elif out == "filetpl":
        opts.append((b"output", b"file:" + o + b"/log-%{snoopy_literal:x}-%{uid}"))
    elif out == "socket":
        opts.append((b"output", b"socket:" + o + b"/sock"))
    elif out == "file-noarg":
        opts.append((b"output", b"file"))
    elif out == "file-missingdir":
        opts.append((b"output", b"file:" + o + b"/nodir/sub/log"))
    elif out == "file-devfull":
        opts.append((b"output", b"file:/dev/full"))          # open succeeds, every write fails with ENOSPC
    elif out == "file-isdir":
        opts.append((b"output", b"file:" + o))                # open fails (EISDIR)
    elif out == "socket-missing":
        opts.append((b"output", b"socket:" + o + b"/no-such-socket"))
    elif out != "default":
        opts.append((b"output", out.encode()))
    if draw(st.booleans()):
        opts.append((b"message_format", draw(st_format_simple(sources))))
    if draw(st.integers(0, 2)) == 0:
        opts.append((b"filter_chain", draw(st_chain_simple())))
    if draw(st.integers(0, 3)) == 0:
        opts.append((b"error_logging", draw(st.sampled_from([b"yes", b"no", b"1", b"x"]))))
    if draw(st.integers(0, 3)) == 0:
        opts.append((b"syslog_facility", draw(st.sampled_from(FACILITIES + ["LOG_USER", "bogus"])).encode()))
    if draw(st.integers(0, 3)) == 0:
        opts.append((b"syslog_level", draw(st.sampled_from(LEVELS + ["LOG_ERR", "bogus"])).encode()))
    if draw(st.integers(0, 3)) == 0:
        opts.append((b"syslog_ident", draw(st_format_simple(list(ident_sources), 2))))
    if draw(st.integers(0, 3)) == 0:
        opts.append((b"datasource_message_max_length", draw(st.sampled_from([b"255", b"256", b"1k", b"0", b"x", b"1m"]))))
    if draw(st.integers(0, 3)) == 0:
        opts.append((b"log_message_max_length", draw(st.sampled_from([b"255", b"300", b"1k", b"0", b"x", b"1m"]))))
    opts = draw(st.permutations(opts))
    ini = render_ini(opts)
    feats = []
    if draw(st.sampled_from([False, False, False, True])):
        # the same option more than once / continuation lines (the last delivery wins)
        lines = ini.split(b"\n")[:-1]
        for _ in range(draw(st.integers(1, 3))):
            k = draw(st.sampled_from([b"output", b"output", b"message_format", b"filter_chain", b"syslog_ident"]))
            v = draw(st.sampled_from({b"output": [b"devnull", b"file:" + o + b"/log", b"bogus", b"stdout", b"file", b"socket:" + o + b"/sock", b"noop", b"stderr"],
                                      b"message_format": [b"dup %{cmdline}", b"%{filename}"], b"filter_chain": [b"noop", b"only_root"],
                                      b"syslog_ident": [b"i2", b"%{uid}"]}[k]))
            if draw(st.booleans()):
                lines.insert(draw(st.integers(1, len(lines))), k + b" = " + v)
                feats.append("duplicate")
            else:
                lines.append(b"   " + v)
                feats.append("continuation")
        ini = b"\n".join(lines) + b"\n"
    return {"kind": out, "ini": ini, "opts": opts, "feats": feats}


OUT = b"@OUT@"   # placeholder for the driver's private sink directory (keeps cases replayable)


def cfg_ops(cfg, out):
    """Driver ops installing a config dict from st_config; @OUT@ becomes the sink directory."""
    import drv
    if cfg.get("dir"):
        return [drv.op("M")]
    if cfg["ini"] is None:
        return [drv.op("D")]
    return [drv.op("C", cfg["ini"].replace(OUT, out.encode()))]


def std_sinks(o):
    """Ops wiring every candidate sink a config from st_config (built for out dir o) can address."""
    import drv
    return [
        drv.op("S", 1, "pipe"), drv.op("S", 2, "pipe"),
        drv.op("K", "devlog", os.path.join(o, "devlog.sock"), 1),
        drv.op("K", "sock", os.path.join(o, "sock")),
        drv.op("W", "log", os.path.join(o, "log")),
        drv.op("W", "logtpl", os.path.join(o, "log-x-0")),
    ]
