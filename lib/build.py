"""Scratch builds of /repo's current working tree (DESIGN.md section 2.2).

Every check calls `Run(pid)` once; `run.build(variant)` copies /repo (without .git and
without build output) into the run directory, configures it with the repository's own
autotools and builds lib/ and src/.  The run directory is removed on exit.
"""
import atexit
import os
import shutil
import signal
import subprocess
import sys
import tempfile
import time
from concurrent.futures import ThreadPoolExecutor

REPO = os.environ.get("VERIF_REPO", "/repo")
VERIF = os.path.dirname(os.path.dirname(os.path.abspath(__file__)))
GUARD = "-DA2O_SNOOPY_VERIF"

SAN = "-fsanitize=address,undefined -fno-sanitize-recover=undefined -fno-omit-frame-pointer"

VARIANTS = {
    # name: (configure args, CC, CFLAGS)
    "ts-asan": ([], "gcc", "-g -O1 " + SAN),
    "nts-asan": (["--disable-thread-safety"], "gcc", "-g -O1 " + SAN),
    "ts-plain": ([], "gcc", "-g -O2"),
    "nts-plain": (["--disable-thread-safety"], "gcc", "-g -O2"),
    "ts-tsan": ([], "gcc", "-g -O1 -fsanitize=thread -fno-omit-frame-pointer"),
    "fuzz-nts": (["--disable-thread-safety"], "clang",
                 "-g -O1 -fsanitize=fuzzer-no-link,address,undefined "
                 "-fno-sanitize-recover=undefined -fno-omit-frame-pointer"),
    "fuzz": ([], "clang",
             "-g -O1 -fsanitize=fuzzer-no-link,address,undefined "
             "-fno-sanitize-recover=undefined -fno-omit-frame-pointer"),
}

RSYNC_EXCLUDES = [
    ".git", "*.o", "*.lo", "*.la", "*.a", "*.so", "*.so.*", ".libs", ".deps", "*.log", "*.trs",
    "config.status", "config.h", "stamp-h1", "libtool", "Makefile", "autom4te.cache",
    "tests/_bootstrap-paths.sh", "*.sock.out", "src/cli/snoopyctl",
]


class BuildError(Exception):
    pass


def _sh(cmd, cwd, env=None, timeout=900):
    p = subprocess.run(cmd, cwd=cwd, env=env, stdout=subprocess.PIPE, stderr=subprocess.STDOUT,
                       timeout=timeout)
    return p.returncode, p.stdout.decode("utf-8", "replace")


def kill_stragglers(rundir):
    """Processes of this run that outlived their driver (deliberately orphaned test processes that hang inside the code under test are
    re-parented to init and would spin for ever): everything whose initial environment or executable points into the run directory."""
    me = os.getpid()
    needle = rundir.encode()
    for ent in os.listdir("/proc"):
        if not ent.isdigit() or int(ent) == me:
            continue
        try:
            with open("/proc/%s/environ" % ent, "rb") as f:
                env = f.read(65536)
            exe = os.readlink("/proc/%s/exe" % ent)
        except OSError:
            continue
        if (b"VERIF_INI=" + needle) in env or exe.startswith(rundir):
            if int(ent) in (os.getppid(),):
                continue
            try:
                os.kill(int(ent), 9)
            except OSError:
                pass


class Run:
    """One check invocation: private directory tree + builds."""

    def __init__(self, pid):
        self.pid = pid
        self.owner = os.getpid()     # forked workers must never clean up
        self.t0 = time.time()
        base = os.environ.get("VERIF_TMP", "/tmp")
        self.dir = tempfile.mkdtemp(prefix="verif-%s-" % pid, dir=base)
        os.chmod(self.dir, 0o755)
        self.etc = os.path.join(self.dir, "etc")
        self.out = os.path.join(self.dir, "out")
        os.makedirs(self.etc)
        os.makedirs(self.out)
        os.chmod(self.etc, 0o755)
        os.chmod(self.out, 0o777)
        self.ini = os.path.join(self.etc, "snoopy.ini")
        self.builds = {}
        self._keep = bool(os.environ.get("VERIF_KEEP"))
        atexit.register(self.cleanup)
        for s in (signal.SIGTERM, signal.SIGINT, signal.SIGHUP):
            try:
                signal.signal(s, self._sig)
            except Exception:
                pass

    def _sig(self, signo, frame):
        self.cleanup()
        os._exit(128 + signo)

    def cleanup(self):
        if self._keep or os.getpid() != self.owner:
            return
        d, self.dir = self.dir, None
        if d:
            kill_stragglers(d)
        if d and os.path.isdir(d):
            # children may have created files as other uids / modes
            subprocess.run(["chmod", "-R", "u+rwx", d], stderr=subprocess.DEVNULL)
            shutil.rmtree(d, ignore_errors=True)

    # ------------------------------------------------------------------
    def copy_tree(self, name):
        dst = os.path.join(self.dir, "src-" + name)
        cmd = ["rsync", "-a"]
        for e in RSYNC_EXCLUDES:
            cmd += ["--exclude", e]
        cmd += [REPO + "/", dst + "/"]
        rc, out = _sh(cmd, "/")
        if rc != 0:
            raise BuildError("rsync failed: " + out[-2000:])
        return dst

    def build(self, variant, extra_configure=(), extra_cflags="", name=None, config_h_edit=None,
              targets=("lib", "src")):
        """Build one variant; returns dict with paths."""
        name = name or variant
        if name in self.builds:
            return self.builds[name]
        cargs, cc, cflags = VARIANTS[variant]
        src = self.copy_tree(name)
        if not os.path.exists(os.path.join(src, "configure")):
            rc, out = _sh(["./bootstrap.sh"], src)
            if rc != 0:
                raise BuildError("bootstrap failed: " + out[-3000:])
        env = dict(os.environ)
        env.pop("MAKEFLAGS", None)
        env["CC"] = cc
        env["CFLAGS"] = "%s %s %s -Wno-error" % (cflags, GUARD, extra_cflags)
        cmd = ["./configure", "--quiet", "--sysconfdir=" + self.etc,
               "--libdir=" + os.path.join(self.dir, "libdir-" + name)] + list(cargs) + list(extra_configure)
        rc, out = _sh(cmd, src, env)
        if rc != 0:
            raise BuildError("configure failed (%s): %s" % (name, out[-3000:]))
        if config_h_edit:
            config_h_edit(os.path.join(src, "config.h"))
        for t in targets:
            rc, out = _sh(["make", "-j8", "-C", t], src, env)
            if rc != 0:
                raise BuildError("make -C %s failed (%s): %s" % (t, name, out[-4000:]))
        lib = os.path.join(src, "src", ".libs", "libsnoopy.so")
        ctl = os.path.join(src, "src", "cli", "snoopyctl")
        if not os.path.exists(lib):
            raise BuildError("libsnoopy.so missing after build (%s)" % name)
        b = {"name": name, "variant": variant, "src": src, "lib": lib, "ctl": ctl,
             "asan": "address" in cflags, "tsan": "thread" in cflags, "cc": cc}
        self.builds[name] = b
        return b

    def build_many(self, specs):
        """specs: list of variant names or kwargs dicts; built in parallel."""
        def one(s):
            if isinstance(s, str):
                return self.build(s)
            return self.build(**s)
        with ThreadPoolExecutor(max_workers=min(8, len(specs))) as ex:
            return list(ex.map(one, specs))


def sanitizer_preload(b):
    """Path of the sanitizer runtime that must come first in LD_PRELOAD for build b."""
    if b["cc"] != "gcc":
        return None
    if b["asan"]:
        return subprocess.check_output(["gcc", "-print-file-name=libasan.so"]).decode().strip()
    if b["tsan"]:
        return subprocess.check_output(["gcc", "-print-file-name=libtsan.so"]).decode().strip()
    return None


def infra_fail(msg):
    """Infrastructure failure: not a verdict about the property."""
    sys.stderr.write("INFRASTRUCTURE ERROR: %s\n" % msg)
    sys.exit(2)
