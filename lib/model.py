"""Reference models (DESIGN.md appendix A), written from the property texts and the documentation.

They share no code with snoopy.  Where the specification is silent the oracles built on them accept
every outcome (union of readings).
"""
import re

ERR_CLOSE = b"[ERROR: Closing data source tag ('}') not found.]"

ALL_SOURCES = ["cgroup", "cmdline", "cwd", "datetime", "domain", "egid", "egroup", "env", "env_all", "euid",
               "eusername", "filename", "gid", "group", "hostname", "ipaddr", "login", "pid", "ppid", "rpname",
               "sid", "snoopy_configure_command", "snoopy_literal", "snoopy_threads", "snoopy_version",
               "systemd_unit_name", "tid", "tid_kernel", "timestamp", "timestamp_ms", "timestamp_us", "tty",
               "tty_uid", "tty_username", "uid", "username", "failure", "noop"]


# ---------------------------------------------------------------- A.2 format language
def getenv_model(environ, name):
    """libc getenv over a list of b'K=V' entries (first match wins); None when undefined."""
    if environ is None or name == b"":
        return None
    pre = name + b"="
    for e in environ:
        if e.startswith(pre):
            return e[len(pre):]
    return None


def cmdline_model(path, argv):
    if argv is None or len(argv) == 0:
        return path
    return b" ".join(argv)


class FormatCtx:
    def __init__(self, path, argv, environ, version=b"", available=None, extra=None):
        self.path = path
        self.argv = argv
        self.environ = environ
        self.version = version
        self.available = set(available if available is not None else [s.encode() for s in ALL_SOURCES])
        self.extra = extra or {}     # name -> callable(arg) -> (ok, bytes) for non-deterministic sources

    def datasource(self, name, arg):
        """-> (ok, text) or None when this source is not modelled."""
        if name in self.extra:
            return self.extra[name](arg)
        if name == b"snoopy_literal":
            return True, arg
        if name == b"env":
            v = getenv_model(self.environ, arg)
            return True, (b"(undefined)" if v is None else v)
        if name == b"cmdline":
            return True, cmdline_model(self.path, self.argv)
        if name == b"filename":
            return True, self.path
        if name == b"failure":
            return False, b"Artificial datasource failure triggered"
        if name == b"noop":
            return True, b""
        if name == b"snoopy_version":
            return True, self.version
        return None


def expand_pieces(fmt, fctx, continue_after_unknown=False):
    """Expand fmt to a list of pieces: ('lit', bytes) | ('ds', bytes) | ('err', bytes) |
    ('dserr', name, text) | ('unmodelled', name).  See DESIGN appendix A.2."""
    out = []
    cur = 0
    while True:
        i = fmt.find(b"%{", cur)
        if i < 0:
            if fmt[cur:]:
                out.append(("lit", fmt[cur:]))
            return out
        if fmt[cur:i]:
            out.append(("lit", fmt[cur:i]))
        j = fmt.find(b"}", i)
        if j < 0:
            out.append(("err", ERR_CLOSE))
            return out
        tag = fmt[i + 2:j]
        name, sep, arg = tag.partition(b":")
        if name not in fctx.available:
            out.append(("err", b"[ERROR: Data source '" + name + b"' not found.]"))
            if not continue_after_unknown:
                return out
        else:
            r = fctx.datasource(name, arg)
            if r is None:
                out.append(("unmodelled", name))
            else:
                ok, text = r
                if ok:
                    out.append(("ds", text))
                else:
                    out.append(("dserr", name, text))
        cur = j + 1


def dserr_text(name, text):
    return b"[ERROR: Data source '" + name + b"' failed with the following error message: '" + text + b"']"


def render(pieces, l_ds=None):
    """Ideal expansion; with l_ds every data-source text is cut to its first l_ds bytes."""
    out = []
    for p in pieces:
        if p[0] in ("lit", "err"):
            out.append(p[1])
        elif p[0] == "ds":
            out.append(p[1] if l_ds is None else p[1][:l_ds])
        elif p[0] == "dserr":
            out.append(dserr_text(p[1], p[2] if l_ds is None else p[2][:l_ds]))
        else:
            raise ValueError("unmodelled piece")
    return b"".join(out)


def max_ds_len(pieces):
    m = 0
    for p in pieces:
        if p[0] == "ds":
            m = max(m, len(p[1]))
        elif p[0] == "dserr":
            m = max(m, len(p[2]))
    return m


def match_truncated(record, pieces, l_ds, slack=8):
    """True iff record == pieces with every over-long data-source text replaced by a prefix whose
    length lies in [l_ds - slack, l_ds] (snprintf-style truncation; a few bytes of slack keep
    other sound implementations, e.g. cutting at a character boundary, acceptable)."""
    seen = set()

    def rec(pi, pos):
        if (pi, pos) in seen:
            return False
        if pi == len(pieces):
            return pos == len(record)
        p = pieces[pi]
        if p[0] in ("lit", "err"):
            t = p[1]
            if record.startswith(t, pos) and rec(pi + 1, pos + len(t)):
                return True
        elif p[0] == "ds":
            t = p[1]
            if len(t) <= l_ds:
                if record.startswith(t, pos) and rec(pi + 1, pos + len(t)):
                    return True
            else:
                for n in range(l_ds, max(-1, l_ds - slack - 1), -1):
                    if record.startswith(t[:n], pos) and rec(pi + 1, pos + n):
                        return True
        elif p[0] == "dserr":
            pre = b"[ERROR: Data source '" + p[1] + b"' failed with the following error message: '"
            if record.startswith(pre, pos):
                t = p[2]
                lens = [len(t)] if len(t) <= l_ds else list(range(l_ds, max(-1, l_ds - slack - 1), -1))
                for n in lens:
                    q = pos + len(pre)
                    if record.startswith(t[:n] + b"']", q) and rec(pi + 1, q + n + 2):
                        return True
        seen.add((pi, pos))
        return False

    import sys
    if len(pieces) > 400:
        sys.setrecursionlimit(10000)
    return rec(0, 0)


def check_expansion(record, fmt, fctx, l_ds, l_log):
    """Oracle for C05.  record: bytes or None (nothing logged).  Returns None if acceptable, else a
    (what, expected) tuple."""
    got = record if record is not None else b""
    if len(got) > l_log:
        return ("message longer than log_message_max_length (%d > %d)" % (len(got), l_log), None)
    reasons = []
    for cont in (False, True):
        pieces = expand_pieces(fmt, fctx, continue_after_unknown=cont)
        if any(p[0] == "unmodelled" for p in pieces):
            return None
        ideal = render(pieces)
        if max_ds_len(pieces) <= l_ds and len(ideal) <= l_log:
            if got == ideal:
                return None
            reasons.append(("expansion fits both limits but the record differs", ideal))
            continue
        cut = render(pieces, l_ds)
        if len(cut) <= l_log:
            # only the per-data-source limit applies: everything else must be exact
            if match_truncated(got, pieces, l_ds):
                return None
            reasons.append(("record is not the expansion with over-long data-source outputs cut to "
                            "datasource_message_max_length", cut))
            continue
        # beyond log_message_max_length: only the bounds are required
        single = [p for p in pieces if p[0] == "ds"]
        if len(pieces) == 1 and len(single) == 1 and len(got) > l_ds:
            reasons.append(("single data source contributed more than datasource_message_max_length", None))
            continue
        return None
    return reasons[0]


# ---------------------------------------------------------------- A.1 INI + options
WS = b" \t\n\v\f\r"


def _rstrip(b):
    return b.rstrip(WS)


def _lskip(b):
    return b.lstrip(WS)


def _find_chars_or_comment(s, chars):
    """Index of first char in `chars` or of an inline comment (';' preceded by whitespace); len(s) if none."""
    was_space = False
    for i, c in enumerate(s):
        ch = bytes([c])
        if chars is not None and ch in [bytes([x]) for x in chars]:
            return i
        if was_space and c == 0x3b:
            return i
        was_space = ch in [bytes([x]) for x in WS]
    return len(s)


def ini_deliveries(data, max_line=1024):
    """Model of the INI grammar: yields (section, name, value) in file order.
    Physical lines longer than max_line-1 bytes are outside the modelled domain (caller avoids them)."""
    out = []
    section = b""
    prev_name = b""
    lineno = 0
    # NUL bytes end the C string the parser sees for that line
    lines = data.split(b"\n")
    if lines and lines[-1] == b"":
        lines.pop()
    for raw in lines:
        lineno += 1
        z = raw.find(b"\0")
        if z >= 0:
            raw = raw[:z]
        start_off = 0
        if lineno == 1 and raw.startswith(b"\xef\xbb\xbf"):
            start_off = 3
        body = _rstrip(raw[start_off:])
        stripped = _lskip(body)
        lead = (len(body) - len(stripped)) + start_off
        if stripped[:1] in (b";", b"#"):
            continue
        if stripped == b"":
            continue
        if prev_name and lead > 0:
            out.append((section, prev_name, stripped))
            continue
        if stripped[:1] == b"[":
            e = _find_chars_or_comment(stripped[1:], b"]")
            if e < len(stripped) - 1 and stripped[1 + e:2 + e] == b"]":
                section = stripped[1:1 + e][:49]
                prev_name = b""
            continue
        e = _find_chars_or_comment(stripped, b"=:")
        if e < len(stripped) and stripped[e:e + 1] in (b"=", b":"):
            name = _rstrip(stripped[:e])
            value = stripped[e + 1:]
            c = _find_chars_or_comment(value, None)
            value = value[:c]
            value = _rstrip(_lskip(value))
            if len(value) >= 1 and value[:1] == b'"' and value[-1:] == b'"':
                value = value[1:-1] if len(value) >= 2 else b""
            elif len(value) >= 1 and value[:1] == b"'" and value[-1:] == b"'":
                value = value[1:-1] if len(value) >= 2 else b""
            prev_name = name[:49]
            out.append((section, name, value))
        # else: error line, skipped
    return out


FACILITIES = ["AUTH", "AUTHPRIV", "CRON", "DAEMON", "FTP", "KERN", "LOCAL0", "LOCAL1", "LOCAL2", "LOCAL3",
              "LOCAL4", "LOCAL5", "LOCAL6", "LOCAL7", "LPR", "MAIL", "NEWS", "SYSLOG", "USER", "UUCP"]
LEVELS = ["EMERG", "ALERT", "CRIT", "ERR", "WARNING", "NOTICE", "INFO", "DEBUG"]
OUTPUTS = ["devlog", "devnull", "devtty", "file", "socket", "stderr", "stdout", "noop"]

DEFAULTS = {
    "error_logging": b"no",
    "filter_chain": b"",
    "message_format": None,     # build default, filled by caller
    "output": b"devlog",
    "syslog_facility": b"AUTHPRIV",
    "syslog_ident": b"snoopy",
    "syslog_level": b"INFO",
    "datasource_message_max_length": b"2047",
    "log_message_max_length": b"16383",
}

LEN_MIN, LEN_MAX = 255, 1048575
LEN_DEFAULT = {"datasource_message_max_length": 2047, "log_message_max_length": 16383}


def upper_ascii(b):
    return bytes(c - 32 if 97 <= c <= 122 else c for c in b)


def parse_length(text, default):
    """-> set of acceptable results for a length option value (union where the docs are silent)."""
    m = re.match(rb"^([0-9]+)([kKmM]?)$", text)

    def clamp(n, suf):
        f = {b"": 1, b"k": 1024, b"m": 1048576}[suf.lower()]
        return min(max(n * f, LEN_MIN), LEN_MAX)
    if m:
        n = int(m.group(1))
        if n == 0:
            return {default}
        return {clamp(n, m.group(2))}
    # garbage: default, or the value of its leading digits (with an immediately following suffix)
    acc = {default}
    m = re.match(rb"^([0-9]+)([kKmM]?)", text)
    if m and int(m.group(1)) != 0:
        acc.add(clamp(int(m.group(1)), m.group(2)))
        acc.add(clamp(int(m.group(1)), b""))
    return acc


def apply_option(state, name, value, outputs=OUTPUTS):
    """state: dict option -> set of acceptable printed values (bytes).  Applies one delivery."""
    n = name.decode("latin-1")
    if n in ("message_format", "filter_chain", "syslog_ident"):
        state[n] = {value}
    elif n == "error_logging":
        c = value[:1]
        if c in (b"y", b"Y", b"t", b"T", b"1"):
            state[n] = {b"yes"}
        elif c in (b"n", b"N", b"f", b"F", b"0"):
            state[n] = {b"no"}
    elif n == "output":
        nm, sep, arg = value.partition(b":")
        if nm.decode("latin-1") in outputs:
            state[n] = {nm + (b":" + arg if arg else b"")}
        else:
            state[n] = {state.get("_defaults", DEFAULTS)["output"]}
    elif n in ("syslog_facility", "syslog_level"):
        table = FACILITIES if n == "syslog_facility" else LEVELS
        v = upper_ascii(value)
        if v.startswith(b"LOG_"):
            v = v[4:]
        if v.decode("latin-1") in table:
            state[n] = {v}
        elif v.startswith(b"LOG_") and v[4:].decode("latin-1") in table:
            # a doubled prefix (LOG_LOG_INFO): the documentation speaks of "an optional LOG_ prefix" and is silent about two of them --
            # both readings are accepted (garbage => default, or the name behind the prefixes)
            state[n] = {state.get("_defaults", DEFAULTS)[n], v[4:]}
        else:
            # garbage => built-in default; when it follows a valid occurrence the union also
            # accepts keeping that one (DESIGN 2.6)
            state[n] = {state.get("_defaults", DEFAULTS)[n]} | (state[n] if state.get("_lenient") else set())
    elif n in LEN_DEFAULT:
        res = parse_length(value, LEN_DEFAULT[n])
        state[n] = {str(r).encode() for r in res}


def defaults_from_config_h(text):
    """compile-time defaults of a build (./configure --with-message-format= / --with-default-output= / --with-syslog-* /
    --with-filter-chain= / --enable-error-logging) read from its config.h"""
    d = dict(DEFAULTS)

    def s(name):
        m = re.search(r'#define ' + name + r' "(.*)"', text)
        return None if m is None else m.group(1).encode().replace(b'\\"', b'"')
    d["message_format"] = s("SNOOPY_CONF_MESSAGE_FORMAT")
    if s("SNOOPY_CONF_FILTER_CHAIN") is not None:
        d["filter_chain"] = s("SNOOPY_CONF_FILTER_CHAIN")
    if s("SNOOPY_CONF_SYSLOG_IDENT_FORMAT") is not None:
        d["syslog_ident"] = s("SNOOPY_CONF_SYSLOG_IDENT_FORMAT")
    for opt, name in (("syslog_facility", "SNOOPY_CONF_SYSLOG_FACILITY"), ("syslog_level", "SNOOPY_CONF_SYSLOG_LEVEL")):
        m = re.search(r"#define " + name + r" LOG_([A-Z0-9]+)", text)
        if m:
            d[opt] = m.group(1).encode()
    if re.search(r"^#define SNOOPY_CONF_ERROR_LOGGING_ENABLED", text, re.M):
        d["error_logging"] = b"yes"
    out = s("SNOOPY_CONF_OUTPUT_DEFAULT")
    if out is None:
        m = re.search(r"#define SNOOPY_CONF_OUTPUT_DEFAULT ([A-Za-z_0-9]+)", text)
        out = m.group(1).encode() if m else None
    if out is not None:
        arg = s("SNOOPY_CONF_OUTPUT_DEFAULT_ARG")
        d["output"] = out + (b":" + arg if arg else b"")
    return d


def config_model(data, default_format, outputs=OUTPUTS, defaults=None):
    """Expected `snoopyctl conf` values for a configuration file: dict option -> set of acceptable bytes."""
    state = {k: {v if v is not None else default_format} for k, v in (defaults or DEFAULTS).items()}
    if defaults:
        state["_defaults"] = defaults
    if data is None:
        return state
    for section, name, value in ini_deliveries(data):
        if section != b"snoopy":
            continue
        apply_option(state, name, value, outputs)
    return state


# ---------------------------------------------------------------- A.3 filter chain
KNOWN_FILTERS = ["exclude_spawns_of", "exclude_uid", "only_root", "only_tty", "only_uid", "noop"]


def parse_uid_list(arg):
    """Decimal lists as the documentation defines them; returns list of ints (malformed items -> None)."""
    out = []
    for it in arg.split(b","):
        if re.match(rb"^[0-9]+$", it):
            out.append(int(it))
        else:
            out.append(None)
    return out


def filter_verdict(name, arg, st):
    """st: dict(ruid, stdin_tty: bool, ancestors: list of names or None).  -> True pass / False drop / None unknown."""
    if name == "noop":
        return True
    if name == "only_root":
        return st["ruid"] == 0
    if name == "only_uid":
        return st["ruid"] in parse_uid_list(arg)
    if name == "exclude_uid":
        return st["ruid"] not in parse_uid_list(arg)
    if name == "only_tty":
        return bool(st["stdin_tty"])
    if name == "exclude_spawns_of":
        anc = st.get("ancestors")
        if anc is None:
            return True
        names = [x for x in arg.split(b",") if x]
        return not any(a in names for a in anc)
    return None


def chain_decision(chain, st, known=KNOWN_FILTERS):
    """True = logged, False = dropped."""
    for el in chain.split(b";"):
        if not el:
            continue
        name, sep, arg = el.partition(b":")
        nm = name.decode("latin-1")
        if nm not in known:
            continue
        v = filter_verdict(nm, arg, st)
        if v is False:
            return False
    return True


# ---------------------------------------------------------------- A.4 ld.so.preload editing
LIBNAME = b"libsnoopy.so"


def own_entry(c, P):
    pos = 0
    while True:
        i = c.find(P, pos)
        if i < 0:
            return -1
        at_start = i == 0 or c[i - 1:i] == b"\n"
        nxt = c[i + len(P):i + len(P) + 1]
        if at_start and nxt in (b"", b"\n", b"#", b" ", b"\t"):
            return i
        pos = i + len(P)


def active_lines(c):
    """Non-comment lines mentioning libsnoopy.so (list of (start offset, line bytes))."""
    out = []
    off = 0
    for line in c.split(b"\n"):
        if LIBNAME in line and not line.startswith(b"#"):
            out.append((off, line))
        off += len(line) + 1
    return out


def enable_model(c, P):
    """-> (expected content, 'zero'|'nonzero')."""
    if own_entry(c, P) >= 0:
        return c, "zero"
    if active_lines(c):
        return c, "nonzero"
    return c + (b"\n" if c and not c.endswith(b"\n") else b"") + P + b"\n", "zero"


def lib_tokens(c):
    """Whitespace-separated tokens of non-comment lines, trailing comments removed."""
    toks = []
    for line in c.split(b"\n"):
        if line.startswith(b"#"):
            continue
        h = line.find(b"#")
        if h >= 0:
            line = line[:h]
        toks += line.split()
    return toks


def disable_check(old, new, code, P):
    """Validity predicate for `disable` (property C19).  Returns None or a description of the violation."""
    act = active_lines(old)
    if len(act) >= 2:
        if new != old:
            return "refusal case (duplicate active entries) but the file changed"
        if code == 0:
            return "duplicate active entries but exit status 0"
        return None
    i = own_entry(old, P)
    if i < 0:
        if new != old:
            return "entry absent but the file changed"
        if code != 0:
            return "entry absent but non-zero exit status"
        return None
    if code != 0:
        return "entry present, exit status %d" % code
    # every line other than the entry's line is kept byte for byte and in order
    line_end = old.find(b"\n", i)
    before = old[:i]
    after = old[line_end + 1:] if line_end >= 0 else b""
    if not new.startswith(before):
        return "content in front of the entry changed"
    if not new.endswith(after):
        return "content after the entry's line changed"
    # token sequence: old minus one P
    ot, nt = lib_tokens(old), lib_tokens(new)
    exp = list(ot)
    exp.remove(P)
    if nt != exp:
        return "library tokens after disable are not the old tokens minus the entry"
    if own_entry(new, P) >= 0:
        return "entry still present after disable"
    return None
