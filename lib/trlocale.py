"""A minimal single-byte locale whose case mapping is NOT ASCII's: toupper('i') is a dotted capital I (byte 0xDD), tolower('I') a
dotless i (byte 0xFD), as in Turkish/Azeri locales.  Compiled with localedef into <dir>/xx_TR; processes find it through LOCPATH.
Library code that upper-/lower-cases configuration keywords with the locale-dependent <ctype.h> functions, or compares them with
strcasecmp(), behaves differently under it."""
import os
import subprocess

U = lambda c: "<U%04X>" % c
ASC_UP = list(range(0x41, 0x5B))
ASC_LO = list(range(0x61, 0x7B))
DOTTED_I, DOTLESS_I = 0x0130, 0x0131


def _charmap():
    lines = ["<code_set_name> XXTR8", "<mb_cur_min> 1", "<mb_cur_max> 1", "<escape_char> /", "<comment_char> %", "CHARMAP"]
    for c in range(0x00, 0x80):
        lines.append("%s /x%02x" % (U(c), c))
    lines.append("%s /xdd" % U(DOTTED_I))
    lines.append("%s /xfd" % U(DOTLESS_I))
    lines.append("END CHARMAP")
    return "\n".join(lines) + "\n"


def _source():
    j = lambda cs: ";".join(U(c) for c in cs)
    up = ASC_UP + [DOTTED_I]
    lo = ASC_LO + [DOTLESS_I]
    digit = list(range(0x30, 0x3A))
    punct = [c for c in range(0x21, 0x7F) if not (0x30 <= c <= 0x39 or 0x41 <= c <= 0x5A or 0x61 <= c <= 0x7A)]
    graph = list(range(0x21, 0x7F)) + [DOTTED_I, DOTLESS_I]
    toupper = [(c, c - 32) for c in ASC_LO if c != 0x69] + [(0x69, DOTTED_I), (DOTLESS_I, 0x49)]
    tolower = [(c, c + 32) for c in ASC_UP if c != 0x49] + [(0x49, DOTLESS_I), (DOTTED_I, 0x69)]
    pairs = lambda ps: ";".join("(%s,%s)" % (U(a), U(b)) for a, b in ps)
    return "\n".join([
        "escape_char /", "comment_char %", "LC_CTYPE",
        "upper " + j(up), "lower " + j(lo), "alpha " + j(up + lo), "digit " + j(digit),
        "space " + j([0x20, 0x0C, 0x0A, 0x0D, 0x09, 0x0B]), "cntrl " + j(list(range(0, 0x20)) + [0x7F]), "punct " + j(punct),
        "graph " + j(graph), "print " + j([0x20] + graph), "xdigit " + j(digit + list(range(0x41, 0x47)) + list(range(0x61, 0x67))),
        "blank " + j([0x20, 0x09]), "toupper " + pairs(toupper), "tolower " + pairs(tolower), "END LC_CTYPE", ""])


def build(dirpath):
    """-> (LOCPATH, locale name) or None when localedef is not available / fails"""
    os.makedirs(dirpath, exist_ok=True)
    src, cm = os.path.join(dirpath, "xx_TR.src"), os.path.join(dirpath, "charmap")
    with open(src, "w") as f:
        f.write(_source())
    with open(cm, "w") as f:
        f.write(_charmap())
    try:
        subprocess.run(["localedef", "-c", "-i", src, "-f", cm, os.path.join(dirpath, "xx_TR")], stdout=subprocess.DEVNULL, stderr=subprocess.DEVNULL, timeout=60)
    except (OSError, subprocess.TimeoutExpired):
        return None
    if not os.path.exists(os.path.join(dirpath, "xx_TR", "LC_CTYPE")):
        return None
    return dirpath, "xx_TR"
