#!/usr/bin/env python3
"""Regenerates /verif/MANIFEST.json from tools/manifest_src.py (single source of truth)."""
import json, os, sys
sys.path.insert(0, os.path.dirname(os.path.abspath(__file__)))
from manifest_src import CHECKS, NOT_APPLICABLE, HOOK_COMMITS
m = {
 "version": 1,
 "setup_cmd": "make -C /verif/harness",
 "hooks": {
  "guard": "A2O_SNOOPY_VERIF",
  "enable": "every verification build passes -DA2O_SNOOPY_VERIF in CFLAGS (lib/build.py); no source hook exists, the define guards nothing",
  "baseline_off_cmd": "/verif/tools/run_baseline.sh",
  "source_commits": HOOK_COMMITS,
  "add_only": True
 },
 "engines": [
  {"name": "hypothesis+execdrv", "path": "lib/pbt.py", "kind_free_text": "Hypothesis strategies / state machines driving the real libsnoopy.so through a preloaded driver with a recording execv/execve", "serves_properties": sorted(c["property_id"] for c in CHECKS if c.get("engine") == "hypothesis+execdrv")},
  {"name": "libfuzzer+hypothesis", "path": "harness/fuzz_exec.cpp", "kind_free_text": "libFuzzer target over (config bytes, exec request) against the clang ASan/UBSan build; Hypothesis boundary sweep through execdrv", "serves_properties": sorted(c["property_id"] for c in CHECKS if c.get("engine") == "libfuzzer+hypothesis")},
  {"name": "strace-injection+execdrv", "path": "lib/trace.py", "kind_free_text": "execdrv oneshot mode under strace: window markers, per-call error injection, syscall log", "serves_properties": sorted(c["property_id"] for c in CHECKS if c.get("engine") == "strace-injection+execdrv")},
  {"name": "libsched+execdrv", "path": "harness/sched.c", "kind_free_text": "pthread_mutex_lock/unlock interposer: parking at the k-th event (C10), cooperative scheduler with generated preemption lists (C09)", "serves_properties": sorted(c["property_id"] for c in CHECKS if c.get("engine") == "libsched+execdrv")},
  {"name": "hypothesis+snoopyctl", "path": "lib/preload.py", "kind_free_text": "exhaustive + Hypothesis-generated ld.so.preload contents against the real snoopyctl binary", "serves_properties": sorted(c["property_id"] for c in CHECKS if c.get("engine") == "hypothesis+snoopyctl")},
  {"name": "strace-injection+snoopyctl", "path": "checks/C20.py", "kind_free_text": "enumerated crash points / failing write calls via strace -e inject", "serves_properties": sorted(c["property_id"] for c in CHECKS if c.get("engine") == "strace-injection+snoopyctl")},
 ],
 "checks": CHECKS,
 "not_applicable": NOT_APPLICABLE,
 "notes": "All checks rebuild libsnoopy.so/snoopyctl from /repo's working tree in a scratch copy under /tmp (removed on exit). Exit 2 = infrastructure error (never a verdict)."
}
json.dump(m, open('/verif/MANIFEST.json', 'w'), indent=1)
print("checks:", len(CHECKS), "not_applicable:", len(NOT_APPLICABLE))
