#!/bin/sh
# tools/save_seed.sh <Cxx> <variant> "<confirm line>" "<checks that catch it>"  -- copy a confirmed seeded defect into /verif/seeded/
id=$1; v=$2; sd=/tmp/seed-$id/$v; dst=/verif/seeded/$id-$v
mkdir -p $dst && cp -r $sd/. $dst/ && rm -rf $dst/*.log $dst/tmp* $dst/work 2>/dev/null
python3 - "$id" "$v" "$3" "$4" <<'PY'
import json,sys
id,v,confirm,caught=sys.argv[1:5]
p='/verif/seeded/%s-%s/meta.json'%(id,v)
try: m=json.load(open(p))
except Exception: m={}
m['property']=id; m['variant']=v
m['confirmed_by_me']=confirm
m['caught_by']=caught
json.dump(m,open(p,'w'),indent=1)
PY
echo saved $dst
