#!/bin/sh
# Runs the repository's own test-suite (guard OFF: no -DA2O_SNOOPY_VERIF) in a scratch copy of
# /repo's working tree and prints per-test results. Exit 0 iff >= 172 tests pass and only the two
# always-failing tests of BASELINE.json fail.
set -u
REPO=${VERIF_REPO:-/repo}
T=$(mktemp -d /tmp/verif-baseline-XXXXXX)
trap 'rm -rf "$T"' EXIT INT TERM
rsync -a --exclude .git --exclude '*.o' --exclude '*.lo' --exclude '*.la' --exclude .libs --exclude .deps \
  --exclude '*.log' --exclude '*.trs' --exclude config.status --exclude config.h --exclude stamp-h1 \
  --exclude libtool --exclude Makefile --exclude autom4te.cache --exclude '*.sock.out' "$REPO/" "$T/src/"
cd "$T/src" || exit 2
[ -x ./configure ] || ./bootstrap.sh >/dev/null 2>&1
./configure --quiet >"$T/configure.log" 2>&1 || { tail -20 "$T/configure.log"; exit 2; }
make -j16 >"$T/make.log" 2>&1 || { tail -30 "$T/make.log"; exit 2; }
make -k -j8 check >"$T/check.log" 2>&1
grep -E '^(PASS|FAIL|XFAIL|SKIP|XPASS|ERROR):' "$T/check.log" | sort | uniq -c | awk '{print $2" "$3}' > "$T/res.txt"
pass=$(grep -c '^PASS:' "$T/res.txt"); fail=$(grep -E '^(FAIL|ERROR|XPASS):' "$T/res.txt" | sort -u)
echo "PASS=$pass"
echo "$fail" | sed 's/^/  /'
unexpected=$(echo "$fail" | grep -v -e 'datasource_systemd_unit_name.sh' -e 'output_socket.sh' | grep -c .)
[ "$pass" -ge 172 ] && [ "$unexpected" -eq 0 ]
