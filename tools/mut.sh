#!/bin/sh
# tools/mut.sh <patch.diff> <check-id> [tier]  -- apply a patch to /repo, run the check, undo the patch.
# Prints the check's tail and "MUT-RESULT <patch> <id> exit=<n>".
p=$(readlink -f "$1"); id=$2; tier=${3:-quick}
cd /repo || exit 2
git diff --quiet || { echo "/repo has uncommitted changes"; exit 2; }
git apply "$p" || { echo "patch does not apply: $p"; exit 2; }
cd /verif
./check "$id" "$tier" > /tmp/mut.$$.log 2>&1; rc=$?
git -C /repo checkout -- . 
grep -E "^(VIOLATION|KNOWN-FINDING|  what|C[0-9]+ (quick|thorough))" /tmp/mut.$$.log | cut -c1-300 | head -8
rm -f /tmp/mut.$$.log
# replays produced by mutant runs are not evidence about the real tree
echo "MUT-RESULT $(basename $(dirname $p))/$(basename $p) $id exit=$rc"
