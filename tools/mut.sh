#!/bin/sh
# tools/mut.sh <patch.diff> <check-id> [tier]
# Runs a check against /repo + patch WITHOUT touching /repo: the patch is applied to a scratch clone of /repo's HEAD
# (outside /repo and /verif, removed afterwards) and the check is pointed at it through VERIF_REPO.
# Prints the verdict lines and "MUT-RESULT <patch> <id> exit=<n>".  Replays written by mutant runs are not evidence.
p=$(readlink -f "$1"); id=$2; tier=${3:-quick}
scratch=$(mktemp -d /tmp/verif-mut-XXXXXX)
trap 'rm -rf "$scratch"' EXIT INT TERM
git clone -q /repo "$scratch/repo" || exit 2
# a seeded defect made against an earlier commit of /repo (meta.json "base") is run against that commit
base=$(python3 -c "import json,sys;print(json.load(open(sys.argv[1])).get('base',''))" "$(dirname "$p")/meta.json" 2>/dev/null)
[ -n "$base" ] && git -C "$scratch/repo" checkout -q "$base"
# generated autotools files are not tracked: take them from /repo so that no bootstrap is needed
rsync -a --exclude .git --exclude '*.o' --exclude '*.lo' --exclude '*.la' --exclude .libs --exclude .deps --ignore-existing /repo/ "$scratch/repo/"
git -C "$scratch/repo" apply "$p" || { echo "patch does not apply: $p"; exit 2; }
cd /verif
ev=/verif/evidence/$id.json; [ -f "$ev" ] && cp "$ev" "$scratch/ev.json"
VERIF_REPO="$scratch/repo" ./check "$id" "$tier" > "$scratch/log" 2>&1; rc=$?
[ -f "$scratch/ev.json" ] && cp "$scratch/ev.json" "$ev"      # evidence must come from runs against /repo itself
grep -E "^(VIOLATION|KNOWN-FINDING|  what|INFRA|C[0-9]+ (quick|thorough))" "$scratch/log" | cut -c1-300 | head -8
echo "MUT-RESULT $(basename $(dirname $p))/$(basename $p) $id exit=$rc"
