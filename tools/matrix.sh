#!/bin/bash
# tools/matrix.sh [seed] [parallel]  -- sensitivity matrix: every seeded defect and every mutant against the check that is supposed to catch
# it (quick tier, given VERIF_SEED).  One line per patch: CAUGHT / MISSED / ERROR.  Patches are grouped by check; groups run in
# parallel (default 4 at a time), the patches of one group one after the other (two runs of the same check never overlap).
seed=${1:-1}; par=${2:-4}
cd /verif
tmp=$(mktemp -d /tmp/verif-matrix-XXXXXX)
trap 'rm -rf "$tmp"' EXIT
for d in seeded/*/; do
  id=$(basename $d); prop=${id%%-*}
  c=$(python3 -c "import json;print(json.load(open('$d/meta.json')).get('caught_by','').split()[0])" 2>/dev/null)
  case "$c" in C[0-9][0-9]) ;; *) c=$prop;; esac
  echo "${d}patch.diff" >> $tmp/$c.list
done
for m in mutants/*.diff; do
  b=$(basename $m)
  case "$b" in
    orig-*) c=$(python3 - "$b" <<'PY'
import json,sys
b=sys.argv[1].split('-')[1]
for f in json.load(open('/verif/known_findings.json'))['findings']:
    if f['commit']==b and f.get('detected_by'): print(f['detected_by'][0]); break
PY
) ;;
    C01-cleanup-after*) c=C16 ;;
    *) c=${b%%-*} ;;
  esac
  [ -n "$c" ] && echo "$m" >> $tmp/$c.list
done
one_group() {
  c=$1; seed=$2; tmp=$3
  while read p; do
    out=$(VERIF_SEED=$seed tools/mut.sh "$p" "$c" 2>&1)
    rc=$(echo "$out" | grep -o 'exit=[0-9]*' | tail -1)
    case "$rc" in exit=1) v=CAUGHT;; exit=0) v=MISSED;; *) v="ERROR($rc)";; esac
    echo "$v $c $p $(echo "$out" | grep -m1 'what:' | cut -c1-120)"
  done < $tmp/$c.list
}
export -f one_group
ls $tmp/*.list | xargs -n1 basename | sed 's/.list//' | xargs -P $par -I{} bash -c "one_group {} $seed $tmp"
