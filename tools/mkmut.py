#!/usr/bin/env python3
"""tools/mkmut.py <name> <file> <<< python-expression transforming source `s`
Creates /verif/mutants/<name>.diff from an in-place edit of /repo/<file> (then reverts it)."""
import subprocess, sys
name, path = sys.argv[1], sys.argv[2]
code = sys.stdin.read()
full = '/repo/' + path
s = open(full).read()
env = {'s': s}
exec(code, env)
new = env['s']
assert new != s, "mutation changed nothing"
open(full, 'w').write(new)
d = subprocess.run(['git', '-C', '/repo', 'diff'], capture_output=True, text=True).stdout
subprocess.check_call(['git', '-C', '/repo', 'checkout', '--', '.'])
open('/verif/mutants/%s.diff' % name, 'w').write(d)
print("wrote mutants/%s.diff (%d lines)" % (name, d.count('\n')))
