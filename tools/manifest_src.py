HOOK_COMMITS = []

def chk(pid, level, text, note, technique, engine="hypothesis+execdrv", design="DESIGN.md section 3 / " ):
    return {
        "property_id": pid,
        "quick_cmd": "./check %s quick" % pid,
        "thorough_cmd": "./check %s thorough" % pid,
        "evidence_file": "/verif/evidence/%s.json" % pid,
        "replay_cmd_template": "./check %s --replay {path}" % pid,
        "engine": engine,
        "level_claimed": {"category": level, "text": text, "design_ref": design + pid},
        "level_note": note,
        "technique": technique,
    }

CHECKS = [
    chk("C01", "exploration",
        "Property-based exploration: thousands of generated (config, exec request, outcome) cases through the production execv/execve wrappers; each must reach the recording real-exec exactly once with deep-equal arguments, with all logging already at the sinks, and return the scripted ret/errno. Held on everything generated; no absence proof.",
        "Trusts librecorder.so as the RTLD_NEXT target and the kernel for the real-exec cases; vectors that the kernel rejects (E2BIG) are only run with a scripted outcome.",
        "property-based testing (Hypothesis) with invariant oracle on a recording exec"),
    chk("C04", "exploration",
        "Property-based exploration of (output, syslog settings, message bytes/length up to the configurable maximum, filter chain, stdio type, repeated and real exec): every candidate sink is sampled at real-exec entry and at the end and must hold exactly the framed record(s) of the reference framing, nothing elsewhere.",
        "Datagram outputs up to 65000 bytes, tty sinks up to 2000 bytes; /dev/log redirected by interposing connect(); 'syslog' output not built by default.",
        "property-based testing (Hypothesis) against a reference framing model over all sinks"),
    chk("C05", "exploration",
        "Grammar-based generation of format strings and limits with data-source outputs steered to the limits; the file record / syslog ident / created file name is compared with an independent executable model of the format language (exact when the expansion fits, prefix/bound rules otherwise).",
        "Only deterministic data sources are modelled; 'stop' and 'continue' after an unknown-data-source error are both accepted; truncated outputs may be any prefix of length in [L-8,L].",
        "property-based testing (Hypothesis grammar) against a reference model of the format language"),
    chk("C06", "exploration",
        "Generated call histories in one process (ts and nts builds): each record is the byte delta of the log file and must equal the model for the CURRENT path/argv (prefix rule above the limit); ASan makes unterminated/stale buffers visible.",
        "Second-thread steps only in the thread-safe build.",
        "property-based testing over call histories (Hypothesis) with reference model"),
    chk("C07", "exploration",
        "Exhaustive enumeration of all chains of <=2 (quick) / <=3 (thorough) elements over a 10-spec alphabet x 3 real uids x tty/no tty, plus Hypothesis chains of 0..20 elements with permutation/duplication metamorphic variants; decision compared with the conjunction model computed from harness-observed state; drop => zero bytes at every sink, exec intact.",
        "Chains without whitespace (documented); verdict oracle uses getresuid/ioctl//proc of the same process.",
        "exhaustive small-scope enumeration + property-based testing with metamorphic relations"),
    chk("C08", "exploration",
        "Hypothesis INI grammar (sections, separators, comments, quotes, BOM, continuation, duplicates, all well-formed option values and garbage, numbers to 10^15) against an independent INI+option model via the library's option-value API; `snoopyctl conf` output fed back as config (round trip).",
        "Lines > 1022 bytes and NUL bytes outside the modelled grammar; union of readings where the documentation is silent.",
        "property-based testing (Hypothesis grammar) against a reference model + round-trip"),
    chk("C11", "exploration",
        "Generated histories (random and targeted carry-over shapes) of config rewrites/deletions/corruptions and calls in one process, ts and nts builds: every call's effect on every sink must equal that of the same call made first in a fresh process; ASan for double frees; heap equality between identical trailing calls in plain builds.",
        "Data sources that legitimately differ between two processes (pid, tid, time) are excluded from formats; pid in the devlog prefix normalised.",
        "stateful property-based testing with a fresh-process differential oracle"),
    chk("C14", "exploration",
        "Generated (sequence of real uids assumed by one process, unrelated effective uid, uid list with near misses) cases; each of only_uid/exclude_uid/only_root is consulted by a real wrapped exec under that uid and compared with set membership; complementarity checked.",
        "Runs as root with saved uid 0; list items are valid uids (0..2^32-2).",
        "property-based testing with membership oracle in setuid children"),
    chk("C15", "exploration",
        "Generated process chains (depth 1..12, prctl names with spaces/parentheses/prefixes/empty) and name lists; the leaf's wrapped exec is logged iff no proper ancestor (as read by the harness from /proc at call time) is listed.",
        "Names without ','; empty-named ancestors count as unreadable tree.",
        "property-based testing with oracle computed from /proc in the same process"),
    chk("C16", "exploration",
        "Generated configurations (all outputs incl. failing sinks, all data sources, filters, duplicate/continuation options) x exec inputs x repeated identical calls after warm-up; fd table, live heap, environ, cwd, umask, signal mask/handlers compared before the call, at real-exec entry and after return; zero growth demanded.",
        "Plain -O2 builds (ts and nts); heap via mallinfo2 with tcache disabled; error paths via real failing sinks, not syscall injection.",
        "property-based testing with state-invariant oracle over repeated calls"),
]

_PENDING = "check not built yet in this stage of the work (planned in DESIGN.md section 3); will be claimed once its check exists"
ALL = ["C%02d" % i for i in range(1, 21)]
NOT_APPLICABLE = [{"property_id": p, "reason": _PENDING} for p in ALL if p not in {c["property_id"] for c in CHECKS}]
