HOOK_COMMITS = []

def chk(pid, level, text, note, technique, engine="hypothesis+execdrv", design="DESIGN.md section 3 / " ):
    return {
        "property_id": pid,
        "quick_cmd": "./check %s quick" % pid,
        "thorough_cmd": "./check %s thorough" % pid,
        "evidence_file": "/verif/evidence/%s.json" % pid,
        "replay_cmd_template": "./check %s --replay {path}" % pid,
        "engine": engine,
        "level_claimed": {"category": level, "text": text, "design_ref": design + pid},
        "level_note": note,
        "technique": technique,
    }

CHECKS = [
    chk("C01", "exploration",
        "Property-based exploration: thousands of generated (config, exec request, outcome) cases through the production execv/execve wrappers; each must reach the recording real-exec exactly once with deep-equal arguments, with all logging already at the sinks, and return the scripted ret/errno. Held on everything generated; no absence proof.",
        "Trusts librecorder.so as the RTLD_NEXT target and the kernel for the real-exec cases; vectors that the kernel rejects (E2BIG) are only run with a scripted outcome.",
        "property-based testing (Hypothesis) with invariant oracle on a recording exec"),
]

_PENDING = "check not built yet in this stage of the work (planned in DESIGN.md section 3); will be claimed once its check exists"
ALL = ["C%02d" % i for i in range(1, 21)]
NOT_APPLICABLE = [{"property_id": p, "reason": _PENDING} for p in ALL if p not in {c["property_id"] for c in CHECKS}]
