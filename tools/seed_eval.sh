#!/bin/sh
# tools/seed_eval.sh <Cxx> <variant> [check-id]  -- confirm a seeded defect independently, then run the check against it
id=$1; v=$2; chk=${3:-$1}
/verif/tools/confirm_seed.sh $id $v
/verif/tools/mut.sh /tmp/seed-$id/$v/patch.diff $chk 2>&1 | grep -E "MUT-RESULT|what|INFRA" | sort | uniq -c | cut -c1-260
