#!/bin/sh
# tools/confirm_seed.sh <Cxx> <variant>  -- independent confirmation of a seeded defect in its scratch worktree /tmp/wt-<Cxx>:
#   clean tree: demo passes;  patched tree: builds (warnings = errors), suite still 172 PASS, demo fails.
id=$1; v=$2; wt=/tmp/wt-$id; sd=/tmp/seed-$id/$v
cd $wt || exit 2
git checkout -q -- . ; git clean -fdq tests/output 2>/dev/null
sysconf=$(grep -o 'sysconfdir=[^ ]*' config.log 2>/dev/null | head -1)
[ -f Makefile ] || { ./configure --quiet ${sysconf:+--$sysconf} >/dev/null 2>&1 || exit 2; }
make -j8 >/dev/null 2>&1 || { echo "clean build failed"; exit 2; }
bash $sd/demo.sh $wt >/tmp/confirm.$id.$v.clean.log 2>&1; rc_clean=$?
git apply $sd/patch.diff || { echo "patch does not apply"; exit 2; }
make -j8 >/tmp/confirm.$id.$v.build.log 2>&1 || { echo "patched build FAILED"; git checkout -q -- .; exit 3; }
make -k -j8 check >/tmp/confirm.$id.$v.check.log 2>&1
pass=$(grep -E '^PASS:' /tmp/confirm.$id.$v.check.log | sort -u | wc -l)
fails=$(grep -E '^(FAIL|ERROR):' /tmp/confirm.$id.$v.check.log | sort -u | tr '\n' ' ')
bash $sd/demo.sh $wt >/tmp/confirm.$id.$v.patched.log 2>&1; rc_patched=$?
git checkout -q -- . ; git clean -fdq tests/output 2>/dev/null
make -j8 >/dev/null 2>&1
echo "CONFIRM $id/$v demo_clean=$rc_clean demo_patched=$rc_patched suite_pass=$pass fails=[$fails]"
