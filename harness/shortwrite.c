/* libshortwrite.so -- every write() to a regular file transfers at most SHORTWRITE_CAP bytes (a legal short write that
 * succeeds); used by C20 to exercise "write all of it" loops.  With SHORTREAD_CAP every read() from a regular file returns at most
 * that many bytes (a legal short read; stdio's own reads do not come through here) -- used by C08. */
#define _GNU_SOURCE
#include <dlfcn.h>
#include <stdlib.h>
#include <sys/stat.h>
#include <sys/syscall.h>
#include <unistd.h>

ssize_t write(int fd, const void *buf, size_t n)
{
    static long cap = -1;
    if (cap < 0) { const char *e = getenv("SHORTWRITE_CAP"); cap = e ? atol(e) : 0; }
    struct stat sb;
    if (cap > 0 && n > (size_t) cap && fstat(fd, &sb) == 0 && S_ISREG(sb.st_mode)) n = (size_t) cap;
    return syscall(SYS_write, fd, buf, n);
}

ssize_t read(int fd, void *buf, size_t n)
{
    static long cap = -1;
    if (cap < 0) { const char *e = getenv("SHORTREAD_CAP"); cap = e ? atol(e) : 0; }
    struct stat sb;
    if (cap > 0 && n > (size_t) cap && fstat(fd, &sb) == 0 && S_ISREG(sb.st_mode)) n = (size_t) cap;
    return syscall(SYS_read, fd, buf, n);
}
