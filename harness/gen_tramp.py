#!/usr/bin/env python3
"""Generates tramp.S + tramp_names.h: one register-preserving trampoline per listed libc function.
Every call that libsnoopy.so makes to one of them becomes a scheduling point of libsched.so (no source change).
Only functions that exist in this libc are emitted."""
import subprocess, sys
NAMES = """fopen fopen64 fdopen fclose fread fwrite fputs fputc putc putchar puts fprintf vfprintf printf fflush fgets getline getdelim __getdelim
fseek ftell rewind setvbuf fileno feof ferror clearerr
open open64 openat creat read write pread pwrite close lseek access stat lstat fstat unlink mkdir rmdir getcwd chdir dup dup2 pipe readlink
flock fcntl ioctl fsync ftruncate rename
socket connect send sendto sendmsg recv bind
getuid geteuid getgid getegid getpid getppid getsid getpgid gethostname ttyname_r ttyname isatty
strtok strtok_r
time gettimeofday clock_gettime localtime_r localtime gmtime_r strftime
getpwuid_r getgrgid_r getpwuid getgrgid getpwnam getlogin_r getlogin getenv setenv unsetenv putenv secure_getenv
setutent endutent getutline_r getutline utmpname
syscall sysconf usleep nanosleep sched_yield inet_ntop umask sigaction signal sigprocmask pthread_sigmask setrlimit fchdir""".split()
libc = subprocess.run(["sh", "-c", "ldconfig -p | grep 'libc.so.6 ' | head -1 | sed 's/.*=> //'"], capture_output=True, text=True).stdout.strip() or "/lib/x86_64-linux-gnu/libc.so.6"
have = set(l.split()[-1].split("@")[0] for l in subprocess.run(["nm", "-D", "--defined-only", libc], capture_output=True, text=True).stdout.split("\n") if l.strip())
names = [n for n in dict.fromkeys(NAMES) if n in have]
out = sys.argv[1]
with open(out + "/tramp_names.h", "w") as f:
    f.write("#define NTRAMP %d\nstatic const char *tramp_names[NTRAMP] = {%s};\n" % (len(names), ", ".join('"%s"' % n for n in names)))
S = ['\t.text', '\t.extern sched_generic_point', '\t.extern tramp_real']
for i, n in enumerate(names):
    S.append("""
\t.globl {n}
\t.type {n},@function
{n}:
\tpushq %rdi
\tpushq %rsi
\tpushq %rdx
\tpushq %rcx
\tpushq %r8
\tpushq %r9
\tpushq %rax
\tpushq %r10
\tsubq $136, %rsp
\tmovdqu %xmm0, 0(%rsp)
\tmovdqu %xmm1, 16(%rsp)
\tmovdqu %xmm2, 32(%rsp)
\tmovdqu %xmm3, 48(%rsp)
\tmovdqu %xmm4, 64(%rsp)
\tmovdqu %xmm5, 80(%rsp)
\tmovdqu %xmm6, 96(%rsp)
\tmovdqu %xmm7, 112(%rsp)
\tmovq 200(%rsp), %rdi
\tmovl ${i}, %esi
\tcall sched_generic_point@PLT
\tmovq %rax, %r11
\tmovdqu 0(%rsp), %xmm0
\tmovdqu 16(%rsp), %xmm1
\tmovdqu 32(%rsp), %xmm2
\tmovdqu 48(%rsp), %xmm3
\tmovdqu 64(%rsp), %xmm4
\tmovdqu 80(%rsp), %xmm5
\tmovdqu 96(%rsp), %xmm6
\tmovdqu 112(%rsp), %xmm7
\taddq $136, %rsp
\tpopq %r10
\tpopq %rax
\tpopq %r9
\tpopq %r8
\tpopq %rcx
\tpopq %rdx
\tpopq %rsi
\tpopq %rdi
\tjmp *%r11
\t.size {n}, .-{n}""".format(n=n, i=i))
S.append('\t.section .note.GNU-stack,"",@progbits')
open(out + "/tramp.S", "w").write("\n".join(S) + "\n")
print("trampolines:", len(names))
