#!/bin/sh
# fuzzbox.sh <rundir> <private-etc> <etc-mountpoint> -- <command...>
# Runs <command> inside a private mount namespace as uid/gid 65534 where
#  * <private-etc> is bind-mounted over the compiled-in sysconfdir,
#  * every world-writable directory except <rundir> is an empty private tmpfs,
# so that a fuzzed "output = file:/any/path" cannot touch the real system.
run=$1; etcp=$2; etcm=$3; shift 4
exec unshare -m --propagation private sh -c '
  run=$1; etcp=$2; etcm=$3; shift 3
  mount --bind "$run" /mnt || exit 32
  for d in /tmp /var/tmp /dev/shm /run/lock /w; do [ -d "$d" ] && mount -t tmpfs -o size=256m,mode=1777 tmpfs "$d"; done
  mkdir -p "$run" && mount --move /mnt "$run" || exit 32
  mount --bind "$etcp" "$etcm" || exit 32
  ulimit -f 65536
  exec setpriv --reuid 65534 --regid 65534 --clear-groups "$@"
' sh "$run" "$etcp" "$etcm" "$@"
