/*
 * libsched.so -- pthread_mutex_lock/trylock/unlock interposer (DESIGN.md 2.3, C09/C10).
 *
 * Preloaded BEFORE libsnoopy.so.  Calls whose return address lies inside libsnoopy.so are
 * scheduling points; everything else goes straight to the next definition (libtsan's interceptor or libc).
 *
 * Two modes, selected by the driver:
 *   PARK  (C10): the designated thread is parked right after its k-th lock/unlock event; fork() in the
 *                child switches to "child mode" where a lock attempt on a busy mutex by the only thread
 *                of the process is reported as a deterministic deadlock.
 *   COOP  (C09): cooperative scheduler -- exactly one registered thread runs at a time, switches happen
 *                only at scheduling points, according to a list of (step, thread) preemptions.
 * Hand-over between threads uses raw futex syscalls on plain words (no pthread/sem calls), so that under
 * ThreadSanitizer the harness adds no happens-before edges of its own.
 */
#define _GNU_SOURCE
#include <dlfcn.h>
#include <fcntl.h>
#include <execinfo.h>
#include <errno.h>
#include <link.h>
#include <linux/futex.h>
#include <pthread.h>
#include <stdint.h>
#include <stdio.h>
#include <stdlib.h>
#include <string.h>
#include <sys/syscall.h>
#include <unistd.h>

#define VIS __attribute__((visibility("default")))
#define MAXT 8
#define MAXTRACE 4096

static int (*real_lock)(pthread_mutex_t *);
static int (*real_trylock)(pthread_mutex_t *);
static int (*real_unlock)(pthread_mutex_t *);
static uintptr_t lib_lo, lib_hi, dat_lo, dat_hi;

enum { MODE_OFF = 0, MODE_PARK = 1, MODE_COOP = 2 };
static volatile int mode;
static volatile int in_child;

/* ---- futex helpers (raw syscalls: invisible to TSan) */
static void fwait(volatile int *w, int val) { syscall(SYS_futex, w, FUTEX_WAIT, val, NULL, NULL, 0); }
static void fwake(volatile int *w) { syscall(SYS_futex, w, FUTEX_WAKE, 64, NULL, NULL, 0); }

static int phdr_cb(struct dl_phdr_info *i, size_t sz, void *d)
{
    (void) sz; (void) d;
    if (i->dlpi_name && strstr(i->dlpi_name, "libsnoopy.so")) {
        for (int k = 0; k < i->dlpi_phnum; k++) if (i->dlpi_phdr[k].p_type == PT_LOAD) {
            uintptr_t lo = i->dlpi_addr + i->dlpi_phdr[k].p_vaddr, hi = lo + i->dlpi_phdr[k].p_memsz;
            if (i->dlpi_phdr[k].p_flags & PF_X) {
                if (!lib_lo || lo < lib_lo) lib_lo = lo;
                if (hi > lib_hi) lib_hi = hi;
            } else if (i->dlpi_phdr[k].p_flags & PF_W) {
                if (!dat_lo || lo < dat_lo) dat_lo = lo;
                if (hi > dat_hi) dat_hi = hi;
            }
        }
    }
    return 0;
}

static void init_real(void)
{
    if (real_lock) return;
    real_trylock = (int (*)(pthread_mutex_t *)) dlsym(RTLD_NEXT, "pthread_mutex_trylock");
    real_unlock = (int (*)(pthread_mutex_t *)) dlsym(RTLD_NEXT, "pthread_mutex_unlock");
    real_lock = (int (*)(pthread_mutex_t *)) dlsym(RTLD_NEXT, "pthread_mutex_lock");
    dl_iterate_phdr(phdr_cb, NULL);
}

/* a call is the library's if it comes from its text (return address) or concerns a mutex living in its data segment
 * (a tail call, e.g. from a fork handler, leaves somebody else's return address) */
static int from_lib2(void *ra, void *m)
{
    if (lib_lo && (uintptr_t) ra >= lib_lo && (uintptr_t) ra < lib_hi) return 1;
    return dat_lo && (uintptr_t) m >= dat_lo && (uintptr_t) m < dat_hi;
}

/* ------------------------------------------------------------------ PARK mode */
static volatile int park_k;            /* event number at which the designated thread parks (0 = never) */
static volatile int park_events;       /* events seen from the designated thread */
static volatile int park_state;        /* 0 idle, 1 parked, 2 released, 3 running on until it holds no lock, then parked again */
static volatile int park_word;         /* futex word the parked thread sleeps on */
static volatile int parked_word;       /* futex word the waiter (main) sleeps on */
static volatile pthread_t park_thread;
static volatile int park_thread_set;
/* auxiliary threads: each parks at its own first event >= aux_k at which it holds none of the library's locks */
static volatile int aux_k, aux_parked, aux_word;
static __thread int is_aux, aux_events, aux_done, lock_depth;
static volatile int deadlock_flag;
static volatile int generic_park = 1;     /* libc calls count as park events too */
static void (*deadlock_cb)(const char *);

/* selecting a mode (re)starts supervision in THIS process: it is the root, its fork()ed children are "children" */
VIS void sched_mode(int m) { init_real(); mode = m; if (m != MODE_OFF) in_child = 0; }
VIS int sched_lib_found(void) { init_real(); return lib_lo != 0; }
VIS void sched_on_deadlock(void (*cb)(const char *)) { deadlock_cb = cb; }
VIS void sched_park_setup(int k) { park_k = k; park_events = 0; park_state = 0; park_word = 0; parked_word = 0; park_thread_set = 0; }
VIS void sched_park_thread_is_me(void) { park_thread = pthread_self(); park_thread_set = 1; }
VIS int sched_park_events(void) { return park_events; }
VIS int sched_is_parked(void) { return park_state == 1; }
VIS void sched_release(void)
{
    if (park_state == 1 || park_state == 3) { park_state = 2; park_word = 1; fwake(&park_word); }
    if (aux_word == 0) { aux_word = 1; fwake(&aux_word); }
}
VIS void sched_aux_setup(int k) { aux_k = k; aux_parked = 0; aux_word = k ? 0 : 1; }
VIS void sched_aux_thread_is_me(void) { is_aux = 1; aux_events = 0; aux_done = 0; }
VIS int sched_aux_parked(void) { return aux_parked; }
/* wait until the designated thread is parked or *done flag is set; returns 1 if parked */
VIS int sched_wait_parked(volatile int *done, int timeout_ms)
{
    for (int i = 0; i < timeout_ms; i++) {
        if (park_state == 1) return 1;
        if (*done) return park_state == 1;
        usleep(1000);
    }
    return park_state == 1;
}

VIS void sched_generic_events(int on) { generic_park = on; }

/* a fork handler of the library needs a lock the parked thread holds: the thread runs on only until the waiting thread has got THAT
 * lock (it may still hold others, which the child will then inherit), at the latest until it holds none of the library's locks, and
 * is parked again there -- so it is still stopped inside its call when the fork really happens */
static volatile int waiter_blocked;
static __thread int just_unlocked;
/* two forking threads: a thread that finds a lock of the library busy (held by the parked thread) normally makes the parked thread run on
   at once; with hold_n set it first waits until hold_n threads are waiting like that (or the hold is lifted) -- so that a second thread can
   call fork() while the first one is still inside its fork handlers */
static volatile int hold_n, waiters_now;
VIS void sched_hold_waiters(int n) { hold_n = n; if (!n) waiters_now = 0; }
VIS int sched_waiters(void) { return waiters_now; }
static void release_until_unlocked(void)
{
    if (park_state == 1) { waiter_blocked = 1; park_state = 3; park_word = 1; fwake(&park_word); }
}

static void park_event(void)
{
    if (park_state == 3 && park_thread_set && pthread_equal(pthread_self(), park_thread) && !in_child) {
        if (waiter_blocked && lock_depth > 0 && just_unlocked) {
            /* just released something: give the waiting thread a moment to take it */
            for (int i = 0; i < 50 && waiter_blocked; i++) usleep(1000);
        }
        just_unlocked = 0;
        if (lock_depth == 0 || !waiter_blocked) {
            park_word = 0;
            park_state = 1;
            parked_word = 1; fwake(&parked_word);
            while (park_state == 1) fwait(&park_word, 0);
        }
        return;
    }
    if (is_aux) {
        if (in_child || !aux_k || aux_done) return;
        if (++aux_events >= aux_k && lock_depth == 0 && aux_word == 0) {
            aux_done = 1;
            __sync_fetch_and_add(&aux_parked, 1);
            while (aux_word == 0) fwait(&aux_word, 0);
            __sync_fetch_and_sub(&aux_parked, 1);
        }
        return;
    }
    if (!park_thread_set || !pthread_equal(pthread_self(), park_thread) || in_child) return;
    int n = ++park_events;
    if (park_k && n == park_k && park_state == 0) {
        park_state = 1;
        parked_word = 1; fwake(&parked_word);
        while (park_state == 1) fwait(&park_word, 0);
    }
}

static void child_after_fork(void)
{
    in_child = 1;
    park_state = 0; park_k = 0; park_thread_set = 0;
    aux_k = 0; aux_parked = 0; aux_word = 1;
}

static void report_deadlock(const char *what)
{
    if (getenv("SCHED_DEBUG")) {   /* debugging aid: SCHED_DEBUG=<file> gets the stack of the reported lock attempt */
        void *bt[24]; int n = backtrace(bt, 24);
        int fd = open(getenv("SCHED_DEBUG"), O_WRONLY | O_CREAT | O_APPEND, 0666);
        if (fd >= 0) { backtrace_symbols_fd(bt, n, fd); close(fd); }
    }
    deadlock_flag = 1;
    if (deadlock_cb) deadlock_cb(what);
}

/* ------------------------------------------------------------------ COOP mode */
typedef struct { volatile int word; volatile int state; /* 0 unused 1 runnable 2 blocked 3 done */ pthread_mutex_t *volatile waits; } cthr_t;
static cthr_t cth[MAXT];
static volatile int cnthreads, ccurrent = -1, cstep;
static int csched[64][2]; static int cnsched;
static char ctrace[MAXTRACE]; static volatile int ctlen;
static __thread int my_index = -1;
static volatile int cdone_word;

VIS void sched_coop_setup(int nthreads, const int *pairs, int npairs)
{
    memset((void *) cth, 0, sizeof cth);
    cnthreads = nthreads; ccurrent = -1; cstep = 0; ctlen = 0; cdone_word = 0; deadlock_flag = 0;
    cnsched = npairs > 64 ? 64 : npairs;
    for (int i = 0; i < cnsched; i++) { csched[i][0] = pairs[2 * i]; csched[i][1] = pairs[2 * i + 1]; }
    for (int i = 0; i < nthreads; i++) cth[i].state = 1;
}
VIS const char *sched_coop_trace(void) { ctrace[ctlen < MAXTRACE ? ctlen : MAXTRACE - 1] = 0; return ctrace; }
VIS int sched_coop_steps(void) { return cstep; }
VIS int sched_deadlocked(void) { return deadlock_flag; }

static void tr(char c)
{
    int n = ctlen;
    if (n + 3 < MAXTRACE) { ctrace[n] = (char) ('0' + my_index); ctrace[n + 1] = c; ctlen = n + 2; }
}

static int pick_next(int from)
{
    for (int d = 1; d <= cnthreads; d++) { int j = (from + d) % cnthreads; if (cth[j].state == 1) return j; }
    return -1;
}

static void switch_to(int j)
{
    int me = my_index;
    if (j == me) return;
    ccurrent = j;
    cth[j].word = 1; fwake(&cth[j].word);
    if (me >= 0 && cth[me].state != 3) {
        while (ccurrent != me) { fwait(&cth[me].word, 0); cth[me].word = 0; }
    }
}

/* a scheduling point of the running thread */
static void coop_point(char kind)
{
    if (my_index < 0 || deadlock_flag) return;
    int s = ++cstep;
    tr(kind);
    for (int i = 0; i < cnsched; i++) if (csched[i][0] == s) {
        int j = csched[i][1];
        if (j >= 0 && j < cnthreads && cth[j].state == 1 && j != my_index) { switch_to(j); }
        break;
    }
}

VIS void sched_coop_thread_start(int index)
{
    my_index = index;
    /* wait until scheduled for the first time */
    while (ccurrent != index) { fwait(&cth[index].word, 0); cth[index].word = 0; }
    tr('s');
}

VIS void sched_coop_thread_exit(void)
{
    int me = my_index;
    if (me < 0) return;
    tr('x');
    cth[me].state = 3;
    int j = pick_next(me);
    my_index = -1;
    if (j >= 0) { ccurrent = j; cth[j].word = 1; fwake(&cth[j].word); }
    else {
        int alldone = 1;
        for (int i = 0; i < cnthreads; i++) if (cth[i].state != 3) alldone = 0;
        if (!alldone) report_deadlock("no runnable thread: every remaining thread waits for a lock");
        cdone_word = 1; fwake(&cdone_word);
    }
}

/* called by the controlling (unscheduled) thread: start thread 0 and wait for the end */
VIS void sched_coop_run(void)
{
    ccurrent = 0; cth[0].word = 1; fwake(&cth[0].word);
    while (!cdone_word) fwait(&cdone_word, 0);
}

VIS void sched_coop_point(char kind) { if (mode == MODE_COOP) coop_point(kind); }

static int coop_lock(pthread_mutex_t *m)
{
    coop_point('l');
    for (;;) {
        int r = real_trylock(m);
        /* (having the lock is a scheduling point of its own: a critical section without any call in it could otherwise never be
           interrupted, and nobody would ever meet that lock taken) */
        if (r != EBUSY) { if (r == 0) coop_point('L'); else tr('L'); return r; }
        /* held by a descheduled thread: block, run somebody else */
        int me = my_index;
        cth[me].state = 2; cth[me].waits = m;
        tr('b');
        int j = pick_next(me);
        if (j < 0) {
            report_deadlock("no runnable thread: every thread waits for a lock");
            cdone_word = 1; fwake(&cdone_word);
            for (;;) pause();
        }
        switch_to(j);
        cth[me].state = 1; cth[me].waits = NULL;
    }
}

static int coop_unlock(pthread_mutex_t *m)
{
    int r = real_unlock(m);
    for (int i = 0; i < cnthreads; i++) if (cth[i].state == 2 && cth[i].waits == m) cth[i].state = 1;
    coop_point('u');
    return r;
}

/* stdio stream locks taken explicitly by the library (flockfile/funlockfile) are locks like its mutexes: the cooperative scheduler has
 * to know about them (a switch while one is held must not leave the next thread blocked inside libc), and in PARK mode they count as
 * library locks held */
static void (*real_flockfile)(FILE *), (*real_funlockfile)(FILE *);
static int (*real_ftrylockfile)(FILE *);
static void init_flock(void)
{
    if (real_flockfile) return;
    real_ftrylockfile = (int (*)(FILE *)) dlsym(RTLD_NEXT, "ftrylockfile");
    real_funlockfile = (void (*)(FILE *)) dlsym(RTLD_NEXT, "funlockfile");
    real_flockfile = (void (*)(FILE *)) dlsym(RTLD_NEXT, "flockfile");
}
static void park_event(void);
VIS void flockfile(FILE *f)
{
    init_real(); init_flock();
    void *ra = __builtin_return_address(0);
    int lib = lib_lo && (uintptr_t) ra >= lib_lo && (uintptr_t) ra < lib_hi;
    if (mode == MODE_OFF || !lib || in_child) { real_flockfile(f); return; }
    if (mode == MODE_PARK) { real_flockfile(f); lock_depth++; park_event(); return; }
    if (my_index < 0) { real_flockfile(f); return; }
    coop_point('l');
    for (;;) {
        if (real_ftrylockfile(f) == 0) { tr('L'); return; }
        int me = my_index;
        cth[me].state = 2; cth[me].waits = (pthread_mutex_t *) (void *) f;
        tr('b');
        int j = pick_next(me);
        if (j < 0) {
            report_deadlock("no runnable thread: every thread waits for a lock");
            cdone_word = 1; fwake(&cdone_word);
            for (;;) pause();
        }
        switch_to(j);
        cth[me].state = 1; cth[me].waits = NULL;
    }
}
VIS void funlockfile(FILE *f)
{
    init_real(); init_flock();
    void *ra = __builtin_return_address(0);
    int lib = lib_lo && (uintptr_t) ra >= lib_lo && (uintptr_t) ra < lib_hi;
    real_funlockfile(f);
    if (mode == MODE_OFF || !lib || in_child) return;
    if (mode == MODE_PARK) { if (lock_depth > 0) lock_depth--; just_unlocked = 1; park_event(); just_unlocked = 0; return; }
    if (my_index < 0) return;
    for (int i = 0; i < cnthreads; i++) if (cth[i].state == 2 && cth[i].waits == (pthread_mutex_t *) (void *) f) cth[i].state = 1;
    coop_point('u');
}

/* ------------------------------------------------------------------ generic call points (tramp.S)
 * Every call libsnoopy.so makes to one of the trampolined libc functions lands here first (return address + index);
 * the function returns the address of the real implementation, to which the trampoline jumps with all argument
 * registers intact.  In COOP mode such a call is a scheduling point, in PARK mode an event the thread can be parked at. */
#include "tramp_names.h"
static void *tramp_real_tab[NTRAMP];
static __thread int in_point;
static void park_event(void);

VIS void *sched_generic_point(void *ra, int idx)
{
    void *r = tramp_real_tab[idx];
    if (!r) { r = dlsym(RTLD_NEXT, tramp_names[idx]); tramp_real_tab[idx] = r; }
    if (mode == MODE_OFF || in_point || in_child) return r;
    if (!(lib_lo && (uintptr_t) ra >= lib_lo && (uintptr_t) ra < lib_hi)) return r;
    in_point = 1;
    if (mode == MODE_COOP) {
        if (my_index >= 0) {
            /* the trace tells descriptor-creating ('O') and descriptor-closing ('C') calls from the rest ('c'), so that the explorer
             * can aim preemptions at the windows in which a thread owns a descriptor */
            const char *n = tramp_names[idx];
            char kind = 'c';
            if (!strcmp(n, "close") || !strcmp(n, "fclose")) kind = 'C';
            else if (!strncmp(n, "open", 4) || !strncmp(n, "fopen", 5) || !strcmp(n, "socket") || !strcmp(n, "creat") || !strcmp(n, "fdopen")) kind = 'O';
            coop_point(kind);
        }
    }
    else if (mode == MODE_PARK && generic_park) park_event();
    in_point = 0;
    return r;
}

/* ------------------------------------------------------------------ interposed symbols */
/* pthread_atfork() is a stub inside the calling library that ends in __register_atfork(): the moment right AFTER the library has
 * registered its fork handlers (still inside its one-time initialisation) is a point a thread can be stopped at, too */
VIS int __register_atfork(void (*prepare)(void), void (*parent)(void), void (*child)(void), void *dso)
{
    static int (*real)(void (*)(void), void (*)(void), void (*)(void), void *);
    if (!real) real = (int (*)(void (*)(void), void (*)(void), void (*)(void), void *)) dlsym(RTLD_NEXT, "__register_atfork");
    void *ra = __builtin_return_address(0);
    init_real();
    int r = real(prepare, parent, child, dso);
    /* (the registration is the library's if it passes the library's own __dso_handle: the stub is usually reached by a tail call) */
    /* PARK mode only: under the cooperative scheduler a switch inside pthread_once() would leave the other thread blocked in libc's
     * own wait for the initialisation, which that scheduler cannot see */
    if (mode == MODE_PARK && generic_park && !in_child && !in_point && from_lib2(ra, dso)) {
        in_point = 1;
        park_event();
        in_point = 0;
    }
    return r;
}

VIS int pthread_mutex_lock(pthread_mutex_t *m)
{
    init_real();
    void *ra = __builtin_return_address(0);
    if (mode == MODE_OFF || !from_lib2(ra, m)) return real_lock(m);
    if (in_child) {
        /* the child of a fork has exactly one thread: a busy lock can never be released */
        int r = real_trylock(m);
        if (r == EBUSY) {
            if (getenv("SCHED_DEBUG")) {
                int fd = open(getenv("SCHED_DEBUG"), O_WRONLY | O_CREAT | O_APPEND, 0666);
                if (fd >= 0) { dprintf(fd, "busy mutex %p kind=%d owner=%d count=%u lock=%d me=%ld pid=%d\n", (void *) m, m->__data.__kind, m->__data.__owner,
                                       m->__data.__count, m->__data.__lock, (long) syscall(SYS_gettid), (int) getpid()); close(fd); }
            }
            report_deadlock("child of fork(): lock held by a thread that does not exist in the child"); return real_lock(m); }
        return r;
    }
    if (mode == MODE_PARK) {
        if (park_state == 1 && park_thread_set && !pthread_equal(pthread_self(), park_thread) && !is_aux) {
            int r = real_trylock(m);
            if (r != EBUSY) { return r; }
            /* another thread (e.g. a fork handler) needs the lock the parked thread holds: let it go on until it gives the lock up */
            if (hold_n) { __sync_fetch_and_add(&waiters_now, 1); for (int w = 0; w < 3000 && hold_n && waiters_now < hold_n; w++) usleep(500); }
            release_until_unlocked();
            r = real_lock(m);
            waiter_blocked = 0;
            return r;
        }
        int r = real_lock(m);
        if (r == 0) lock_depth++;
        park_event();
        return r;
    }
    if (my_index < 0) return real_lock(m);
    return coop_lock(m);
}

VIS int pthread_mutex_unlock(pthread_mutex_t *m)
{
    init_real();
    void *ra = __builtin_return_address(0);
    if (mode == MODE_OFF || !from_lib2(ra, m) || in_child) return real_unlock(m);
    if (mode == MODE_PARK) { int r = real_unlock(m); if (r == 0 && lock_depth > 0) lock_depth--; just_unlocked = 1; park_event(); just_unlocked = 0; return r; }
    if (my_index < 0) return real_unlock(m);
    return coop_unlock(m);
}

VIS int pthread_mutex_trylock(pthread_mutex_t *m)
{
    init_real();
    return real_trylock(m);
}

__attribute__((constructor)) static void sched_ctor(void)
{
    init_real();
    pthread_atfork(NULL, NULL, child_after_fork);
}
