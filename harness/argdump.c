/*
 * argdump -- the program really exec'd in "real success" cases.  Reports the argv/envp the
 * kernel delivered and whatever arrives at the harness sinks (fds 190..197) after the
 * process image was replaced.  Event format as in execdrv.c, written to fd 198.
 */
#define _GNU_SOURCE
#include <errno.h>
#include <fcntl.h>
#include <stdint.h>
#include <stdlib.h>
#include <string.h>
#include <sys/socket.h>
#include <sys/stat.h>
#include <unistd.h>

#define RESFD 198
static unsigned char *buf; static size_t len, cap;
static void add(const void *d, size_t n)
{
    if (len + n > cap) { cap = (len + n) * 2 + 4096; buf = realloc(buf, cap); if (!buf) _exit(97); }
    memcpy(buf + len, d, n); len += n;
}
static void u32(uint32_t v) { add(&v, 4); }
static void field(const void *d, size_t n) { u32((uint32_t) n); add(d, n); }
static void flush(void)
{
    size_t off = 0;
    while (off < len) { ssize_t w = write(RESFD, buf + off, len - off); if (w <= 0) { if (errno == EINTR) continue; break; } off += (size_t) w; }
    len = 0;
}

int main(int argc, char **argv, char **envp)
{
    int n = 0;
    (void) argc;
    for (char **p = envp; *p; p++) n++;
    int na = 0;
    if (argv) for (char **p = argv; *p; p++) na++;
    unsigned char c = 'A';
    add(&c, 1); u32((uint32_t) (2 + na + n));
    char t[32];
    int l = 0; { int v = na; char r[16]; int k = 0; do { r[k++] = (char) ('0' + v % 10); v /= 10; } while (v); while (k) t[l++] = r[--k]; }
    field(t, (size_t) l);
    l = 0; { int v = n; char r[16]; int k = 0; do { r[k++] = (char) ('0' + v % 10); v /= 10; } while (v); while (k) t[l++] = r[--k]; }
    field(t, (size_t) l);
    for (int i = 0; i < na; i++) field(argv[i], strlen(argv[i]));
    for (int i = 0; i < n; i++) field(envp[i], strlen(envp[i]));
    flush();
    /* late arrivals at the sinks */
    static unsigned char rb[(1 << 20) + 4096];
    for (int fd = 190; fd < 198; fd++) {
        struct stat sb;
        if (fstat(fd, &sb) < 0) continue;
        int fl = fcntl(fd, F_GETFL);
        if ((fl & O_ACCMODE) == O_WRONLY) continue;
        fcntl(fd, F_SETFL, fl | O_NONBLOCK);
        size_t total = 0; long nd = 0;
        unsigned char *acc = NULL; size_t acap = 0;
        for (;;) {
            ssize_t r = S_ISSOCK(sb.st_mode) ? recv(fd, rb, sizeof rb, MSG_DONTWAIT) : read(fd, rb, sizeof rb);
            if (r < 0 || (r == 0 && !S_ISSOCK(sb.st_mode))) break;
            if (total + (size_t) r + 4 > acap) { acap = (total + (size_t) r + 4) * 2; acc = realloc(acc, acap); }
            if (S_ISSOCK(sb.st_mode)) { uint32_t l32 = (uint32_t) r; memcpy(acc + total, &l32, 4); total += 4; nd++; }
            memcpy(acc + total, rb, (size_t) r); total += (size_t) r;
        }
        c = 'L'; add(&c, 1); u32(2);
        l = 0; { int v = fd; char r2[16]; int k = 0; do { r2[k++] = (char) ('0' + v % 10); v /= 10; } while (v); while (k) t[l++] = r2[--k]; }
        field(t, (size_t) l);
        field(acc ? acc : (unsigned char *) "", total);
        flush();
        free(acc);
    }
    return 0;
}
