// libFuzzer target: one wrapped execv/execve call under a fuzzed configuration file and fuzzed
// path/argv/envp/environ, through the PUBLIC execv/execve symbols of the instrumented libsnoopy.so.
// Input layout:  [mode][nargv][nenv][kind] path\0 argv...\0 env...\0 <rest = snoopy.ini bytes>
//   mode&3: 0 keep environ, 1 environ = the fuzzed env vector, 2 environ = NULL, 3 huge environ
//   nargv: 0xff => argv == NULL, else up to 16 strings;  nenv likewise (envp of execve)
// Oracle inside the target: the recording execv/execve (librecorder.so) is reached exactly once with the
// caller's pointers, and its (-1, errno) comes back unchanged; ASan/UBSan judge memory safety.
#include <dlfcn.h>
#include <errno.h>
#include <fcntl.h>
#include <stdint.h>
#include <stdio.h>
#include <stdlib.h>
#include <string.h>
#include <string>
#include <unistd.h>
#include <vector>

extern "C" {
typedef int (*rec_hook_t)(int kind, const char *path, char *const argv[], char *const envp[]);
void rec_set_hook(rec_hook_t h);
void rec_set_devlog(const char *p);
extern char **environ;
}

static const char *g_ini;
static int g_calls, g_kind;
static const char *g_path; static char *const *g_argv; static char *const *g_envp;
static unsigned long g_iter, g_nontrivial, g_withopt, g_reached;
static char **g_saved_environ;
static std::vector<char *> g_huge;

static int hook(int kind, const char *path, char *const argv[], char *const envp[])
{
    g_calls++;
    if (kind != g_kind || path != g_path || argv != g_argv || (kind == 1 && envp != g_envp)) __builtin_trap();
    errno = 77;
    return -1;
}

static void dump_counters()
{
    const char *p = getenv("FUZZ_COUNTERS");
    if (!p) return;
    FILE *f = fopen(p, "w");
    if (!f) return;
    fprintf(f, "{\"iterations\": %lu, \"with_recognised_option\": %lu, \"nontrivial\": %lu, \"reached_real_exec\": %lu}\n",
            g_iter, g_withopt, g_nontrivial, g_reached);
    fclose(f);
}

extern "C" int LLVMFuzzerInitialize(int *, char ***)
{
    g_ini = getenv("VERIF_INI");
    if (!g_ini) { fprintf(stderr, "VERIF_INI missing\n"); exit(2); }
    rec_set_hook(hook);
    if (getenv("VERIF_DEVLOG")) rec_set_devlog(getenv("VERIF_DEVLOG"));
    g_saved_environ = environ;
    for (int i = 0; i < 60; i++) { char *e = (char *) malloc(120); memset(e, 'a' + i % 26, 119); e[0] = 'H'; e[1] = '0' + i % 10; e[2] = '='; e[119] = 0; g_huge.push_back(e); }
    g_huge.push_back(nullptr);
    atexit(dump_counters);
    return 0;
}

static const char *OPTS[] = {"message_format", "filter_chain", "output", "error_logging", "syslog_facility", "syslog_level",
                             "syslog_ident", "datasource_message_max_length", "log_message_max_length"};

extern "C" int LLVMFuzzerTestOneInput(const uint8_t *data, size_t size)
{
    if (size < 4) return 0;
    g_iter++;
    if ((g_iter & 0x3ff) == 0) dump_counters();
    unsigned mode = data[0] & 3, nargv = data[1], nenv = data[2], kind = data[3] & 1;
    size_t pos = 4;
    auto next = [&](std::string &out) -> bool {
        if (pos >= size) return false;
        const void *z = memchr(data + pos, 0, size - pos);
        size_t n = z ? (size_t)((const uint8_t *) z - (data + pos)) : size - pos;
        out.assign((const char *) data + pos, n);
        pos += n + (z ? 1 : 0);
        return true;
    };
    std::string path;
    if (!next(path)) return 0;
    std::vector<std::string> av, ev;
    bool argv_null = nargv == 0xff, envp_null = nenv == 0xff;
    if (!argv_null) for (unsigned i = 0; i < (nargv & 15); i++) { std::string s; if (!next(s)) break; av.push_back(s); }
    if (!envp_null) for (unsigned i = 0; i < (nenv & 15); i++) { std::string s; if (!next(s)) break; ev.push_back(s); }
    // configuration = rest
    int fd = open(g_ini, O_WRONLY | O_CREAT | O_TRUNC, 0644);
    if (fd < 0) { perror("open ini"); exit(2); }
    size_t rest = size - pos;
    if (rest && write(fd, data + pos, rest) != (ssize_t) rest) { perror("write ini"); exit(2); }
    close(fd);
    bool hasopt = false;
    if (rest >= 8 && memmem(data + pos, rest, "[snoopy]", 8))
        for (const char *o : OPTS) if (memmem(data + pos, rest, o, strlen(o))) { hasopt = true; break; }
    // exact-size heap copies so that any overrun of the caller's strings is visible to ASan
    auto dup = [](const std::string &s) { char *p = (char *) malloc(s.size() + 1); memcpy(p, s.c_str(), s.size() + 1); return p; };
    char *cpath = dup(path);
    std::vector<char *> cav, cev;
    for (auto &s : av) cav.push_back(dup(s));
    cav.push_back(nullptr);
    for (auto &s : ev) cev.push_back(dup(s));
    cev.push_back(nullptr);
    char **argv = argv_null ? nullptr : cav.data();
    char **envp = envp_null ? nullptr : cev.data();
    if (mode == 1) environ = cev.data();
    else if (mode == 2) environ = nullptr;
    else if (mode == 3) environ = g_huge.data();
    g_calls = 0; g_kind = kind; g_path = cpath; g_argv = argv; g_envp = envp;
    errno = 0;
    // through plain function pointers: glibc declares the vectors nonnull, NULL vectors are part of the domain
    static int (*volatile p_execve)(const char *, char **, char **) = (int (*)(const char *, char **, char **)) dlsym(RTLD_DEFAULT, "execve");
    static int (*volatile p_execv)(const char *, char **) = (int (*)(const char *, char **)) dlsym(RTLD_DEFAULT, "execv");
    int r = kind ? p_execve(cpath, argv, envp) : p_execv(cpath, argv);
    int e = errno;
    environ = g_saved_environ;
    if (g_calls != 1 || r != -1 || e != 77) __builtin_trap();
    g_reached++;
    if (hasopt) { g_withopt++; if (mode || argv_null || av.size() > 1) g_nontrivial++; }
    free(cpath);
    for (auto p : cav) free(p);
    for (auto p : cev) free(p);
    return 0;
}
