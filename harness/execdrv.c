/*
 * execdrv -- long-lived driver process (DESIGN.md 2.3).
 *
 * Started as  LD_PRELOAD="[san] libsnoopy.so librecorder.so" execdrv
 * fd 3: scenarios in  (u32 len, blob)      fd 4: results out (u32 len, i32 status, u8 timeout, events)
 * Every scenario runs in a forked child so the driver itself stays pristine.
 *
 * scenario blob := op*       op    := u8 code, u32 nargs, (u32 len, bytes)*
 * result events := event*    event := u8 code, u32 nfields, (u32 len, bytes)*
 *
 * This file contains no snoopy code and calls snoopy only through the interposed
 * execv/execve symbols and the five symbols snoopyctl imports.
 */
#define _GNU_SOURCE
#include <dirent.h>
#include <dlfcn.h>
#include <errno.h>
#include <fcntl.h>
#include <grp.h>
#include <malloc.h>
#include <poll.h>
#include <pthread.h>
#include <pty.h>
#include <sched.h>
#include <signal.h>
#include <stdint.h>
#include <linux/sched.h>
#include <sys/mount.h>
#include <locale.h>
#include <stdio.h>
#include <stdio_ext.h>
#include <stdlib.h>
#include <string.h>
#include <sys/ioctl.h>
#include <sys/mman.h>
#include <sys/prctl.h>
#include <sys/resource.h>
#include <sys/socket.h>
#include <sys/stat.h>
#include <sys/syscall.h>
#include <sys/time.h>
#include <sys/types.h>
#include <sys/uio.h>
#include <sys/un.h>
#include <sys/utsname.h>
#include <sys/wait.h>
#include <termios.h>
#include <time.h>
#include <unistd.h>

extern char **environ;

/* from librecorder.so */
typedef int (*rec_hook_t)(int kind, const char *path, char *const argv[], char *const envp[]);
extern void rec_set_hook(rec_hook_t h);
extern void rec_set_devlog(const char *p);
extern int rec_real_execve(const char *path, char *const argv[], char *const envp[]);

#define RESFD 198
#define MARK 0x56455249

static const char *g_ini;
static int g_timeout_ms = 20000;
static int g_lift_fsize_after_call;
static pid_t g_tty_reader; static int g_tty_slave_fd = -1;      /* lazily reading helper process (terminal or pipe) */
static int g_pre_errno;
static __thread int t_last_errno;
static int g_track_pending;            /* errno value the "caller" has when it enters the wrapped call */
static size_t g_thread_stack;      /* stack size for threads created by 'Z' (0 = default) */
static int g_markers;      /* oneshot mode: bracket the wrapper window with prctl(MARK, 1|2|3) for the tracer */

/* ------------------------------------------------------------------ buffers */
typedef struct { unsigned char *p; size_t len, cap; } buf_t;

static void buf_reserve(buf_t *b, size_t extra)
{
    if (b->len + extra <= b->cap) return;
    size_t nc = b->cap ? b->cap : 4096;
    while (nc < b->len + extra) nc *= 2;
    b->p = realloc(b->p, nc);
    if (!b->p) _exit(97);
    b->cap = nc;
}
static void buf_add(buf_t *b, const void *d, size_t n)
{
    buf_reserve(b, n);
    if (n) memcpy(b->p + b->len, d, n);
    b->len += n;
}
static void buf_u32(buf_t *b, uint32_t v) { buf_add(b, &v, 4); }

/* The harness does its own I/O with preadv2/pwritev2 (offset -1 = the current position, so they work on pipes too): system calls that
 * neither snoopy nor stdio use, so that faults a tracer injects persistently into read()/write()/writev() never hit the harness itself. */
static ssize_t h_write(int fd, const void *d, size_t n)
{
    struct iovec iov = { (void *) d, n };
    return pwritev2(fd, &iov, 1, -1, 0);
}
static ssize_t h_read(int fd, void *d, size_t n)
{
    struct iovec iov = { d, n };
    return preadv2(fd, &iov, 1, -1, 0);
}

static void write_all(int fd, const void *d, size_t n)
{
    const unsigned char *p = d;
    while (n) {
        ssize_t w = h_write(fd, p, n);
        if (w < 0) { if (errno == EINTR) continue; _exit(96); }
        p += w; n -= (size_t) w;
    }
}
static int read_all(int fd, void *d, size_t n)
{
    unsigned char *p = d;
    while (n) {
        ssize_t r = h_read(fd, p, n);
        if (r < 0) { if (errno == EINTR) continue; return -1; }
        if (r == 0) return -1;
        p += r; n -= (size_t) r;
    }
    return 0;
}

/* accumulators that must not disturb the malloc statistics (sinks): raw mmap/mremap */
static void mbuf_reserve(buf_t *b, size_t extra)
{
    if (b->len + extra <= b->cap) return;
    size_t nc = b->cap ? b->cap : (1 << 20);
    while (nc < b->len + extra) nc *= 2;
    void *np = b->p ? mremap(b->p, b->cap, nc, MREMAP_MAYMOVE) : mmap(NULL, nc, PROT_READ | PROT_WRITE, MAP_PRIVATE | MAP_ANONYMOUS, -1, 0);
    if (np == MAP_FAILED) _exit(97);
    b->p = np; b->cap = nc;
}

/* ------------------------------------------------------------------ events */
static pthread_mutex_t ev_mutex = PTHREAD_MUTEX_INITIALIZER;
typedef struct { buf_t b; uint32_t nf; size_t nfpos; } ev_t;

static void ev_begin(ev_t *e, int code)
{
    e->b.len = 0; e->nf = 0;
    unsigned char c = (unsigned char) code;
    buf_add(&e->b, &c, 1);
    e->nfpos = e->b.len;
    buf_u32(&e->b, 0);
}
static void ev_field(ev_t *e, const void *d, size_t n)
{
    buf_u32(&e->b, (uint32_t) n);
    buf_add(&e->b, d, n);
    e->nf++;
}
static void ev_str(ev_t *e, const char *s) { ev_field(e, s, strlen(s)); }
static void ev_int(ev_t *e, long long v)
{
    char t[32];
    snprintf(t, sizeof t, "%lld", v);
    ev_str(e, t);
}
static void ev_end(ev_t *e)
{
    memcpy(e->b.p + e->nfpos, &e->nf, 4);
    write_all(RESFD, e->b.p, e->b.len);
}
static void ev_free(ev_t *e) { free(e->b.p); memset(e, 0, sizeof *e); }

static void ev_error(const char *msg)
{
    ev_t e = {0};
    ev_begin(&e, 'E'); ev_str(&e, msg); ev_int(&e, errno); ev_end(&e); ev_free(&e);
}

/* ------------------------------------------------------------------ sinks */
enum { SK_STREAM = 1, SK_FILE = 2, SK_DGRAM = 3 };
typedef struct {
    int type; char name[32]; int fd; char path[4200];
    buf_t acc; long ndgram;
} sink_t;
#define MAXSINK 12
static sink_t sinks[MAXSINK];
static int nsinks;
static int next_sink_fd = 190;

static sink_t *sink_add(int type, const char *name, int fd, const char *path)
{
    if (nsinks >= MAXSINK) { ev_error("too many sinks"); _exit(95); }
    sink_t *s = &sinks[nsinks++];
    memset(s, 0, sizeof *s);
    s->type = type; s->fd = -1;
    snprintf(s->name, sizeof s->name, "%s", name);
    if (path) snprintf(s->path, sizeof s->path, "%s", path);
    if (fd >= 0) {
        int nf = next_sink_fd++;
        if (dup2(fd, nf) < 0) { ev_error("dup2 sink"); _exit(95); }
        if (fd != nf) close(fd);
        int fl = fcntl(nf, F_GETFL);
        fcntl(nf, F_SETFL, fl | O_NONBLOCK);
        s->fd = nf;
    }
    mbuf_reserve(&s->acc, 1 << 16);
    return s;
}

static uint64_t fnv(const unsigned char *p, size_t n)
{
    uint64_t h = 1469598103934665603ULL;
    for (size_t i = 0; i < n; i++) { h ^= p[i]; h *= 1099511628211ULL; }
    return h;
}

static int read_file(const char *path, buf_t *out)
{
    int fd = open(path, O_RDONLY | O_CLOEXEC | O_NONBLOCK);
    if (fd < 0) return -1;
    out->len = 0;
    for (;;) {
        buf_reserve(out, 65536);
        ssize_t r = h_read(fd, out->p + out->len, 65536);
        if (r <= 0) break;
        out->len += (size_t) r;
    }
    close(fd);
    return 0;
}

/* drain streams/datagrams into accumulators */
static int g_no_drain;      /* set in a forked child that shares the sinks with its (draining) parent */
static void sinks_drain(void)
{
    if (g_no_drain) return;
    for (int i = 0; i < nsinks; i++) {
        sink_t *s = &sinks[i];
        if (s->type == SK_STREAM) {
            for (;;) {
                mbuf_reserve(&s->acc, 65536);
                ssize_t r = h_read(s->fd, s->acc.p + s->acc.len, 65536);
                if (r <= 0) break;
                s->acc.len += (size_t) r;
            }
        } else if (s->type == SK_DGRAM) {
            for (;;) {
                mbuf_reserve(&s->acc, (1 << 20) + 4200);
                ssize_t r = recv(s->fd, s->acc.p + s->acc.len + 4, (1 << 20) + 4096, MSG_DONTWAIT);
                if (r < 0) break;
                uint32_t l = (uint32_t) r;
                memcpy(s->acc.p + s->acc.len, &l, 4);
                s->acc.len += 4 + (size_t) r;
                s->ndgram++;
            }
        }
    }
}

/* textual state of all sinks: name=len[:hash] ... */
static void sinks_state(buf_t *out)
{
    static buf_t tmp;
    char t[160];
    sinks_drain();
    out->len = 0;
    for (int i = 0; i < nsinks; i++) {
        sink_t *s = &sinks[i];
        if (s->type == SK_STREAM) {
            snprintf(t, sizeof t, "%s=%zu;", s->name, s->acc.len);
        } else if (s->type == SK_DGRAM) {
            snprintf(t, sizeof t, "%s=%ld;", s->name, s->ndgram);
        } else {
            if (read_file(s->path, &tmp) < 0) snprintf(t, sizeof t, "%s=absent;", s->name);
            else snprintf(t, sizeof t, "%s=%zu:%016llx;", s->name, tmp.len, (unsigned long long) fnv(tmp.p, tmp.len));
        }
        buf_add(out, t, strlen(t));
    }
}

static void sinks_dump(void)
{
    ev_t e = {0};
    buf_t tmp = {0};
    sinks_drain();
    ev_begin(&e, 'G');
    for (int i = 0; i < nsinks; i++) {
        sink_t *s = &sinks[i];
        ev_str(&e, s->name);
        ev_int(&e, s->type);
        ev_int(&e, s->fd);
        if (s->type == SK_FILE) {
            if (read_file(s->path, &tmp) < 0) ev_str(&e, "\x01" "ABSENT");
            else ev_field(&e, tmp.p, tmp.len);
        } else {
            ev_field(&e, s->acc.p, s->acc.len);
        }
    }
    ev_end(&e); ev_free(&e); free(tmp.p);
}

/* ------------------------------------------------------------------ process-state snapshot (C16) */
static long long heap_now(void)
{
    struct mallinfo2 mi = mallinfo2();
    return (long long) mi.uordblks + (long long) mi.hblkhd;
}

static void state_snapshot(buf_t *out)
{
    char t[5000], l[4200];
    out->len = 0;
    /* fd table */
    DIR *d = opendir("/proc/self/fd");
    buf_add(out, "fds=", 4);
    if (d) {
        struct dirent *de;
        int dfd = dirfd(d);
        int fds[1024]; int nf = 0;
        while ((de = readdir(d))) {
            if (de->d_name[0] == '.') continue;
            int f = atoi(de->d_name);
            if (f == dfd) continue;
            if (nf < 1024) fds[nf++] = f;
        }
        closedir(d);
        for (int i = 0; i < nf; i++) for (int j = i + 1; j < nf; j++) if (fds[j] < fds[i]) { int x = fds[i]; fds[i] = fds[j]; fds[j] = x; }
        for (int i = 0; i < nf; i++) {
            snprintf(t, sizeof t, "/proc/self/fd/%d", fds[i]);
            ssize_t n = readlink(t, l, sizeof l - 1);
            if (n < 0) n = 0;
            l[n] = 0;
            int fl = fcntl(fds[i], F_GETFL), fdl = fcntl(fds[i], F_GETFD);
            snprintf(t, sizeof t, "%d>%s,%x,%x|", fds[i], l, fl, fdl);
            buf_add(out, t, strlen(t));
        }
    }
    /* environment */
    uint64_t h = 1469598103934665603ULL; long ne = 0;
    if (environ) for (char **p = environ; *p; p++) { h ^= fnv((unsigned char *) *p, strlen(*p)); h *= 1099511628211ULL; h ^= (uint64_t)(uintptr_t) *p; ne++; }
    snprintf(t, sizeof t, ";env=%p:%ld:%016llx", (void *) environ, ne, (unsigned long long) h);
    buf_add(out, t, strlen(t));
    /* cwd (raw syscall, no libc caching) */
    long n = syscall(SYS_getcwd, l, sizeof l);
    snprintf(t, sizeof t, ";cwd=%s", n > 0 ? l : "?");
    buf_add(out, t, strlen(t));
    mode_t um = umask(0); umask(um);
    snprintf(t, sizeof t, ";umask=%o", um);
    buf_add(out, t, strlen(t));
    /* the caller's own unflushed stdio data (a real exec discards it; the wrapper must not push it out) */
    if (g_track_pending) { snprintf(t, sizeof t, ";stdout-pending=%zu", __fpending(stdout)); buf_add(out, t, strlen(t)); }
    sigset_t cur;
    sigprocmask(SIG_SETMASK, NULL, &cur);
    buf_add(out, ";mask=", 6);
    for (int s = 1; s < 65; s++) if (sigismember(&cur, s) == 1) { snprintf(t, sizeof t, "%d,", s); buf_add(out, t, strlen(t)); }
    buf_add(out, ";sig=", 5);
    for (int s = 1; s < 65; s++) {
        struct sigaction sa;
        if (sigaction(s, NULL, &sa) != 0) continue;
        /* (the C library adds its return trampoline flag to every action it installs -- also when it merely puts SIG_DFL back, as its
           utmp functions do with SIGALRM; the flag means nothing to the caller) */
        sa.sa_flags &= ~0x04000000;
        if (sa.sa_handler == SIG_DFL && sa.sa_flags == 0) continue;
        snprintf(t, sizeof t, "%d:%p:%x,", s, (void *) sa.sa_handler, (unsigned) sa.sa_flags);
        buf_add(out, t, strlen(t));
    }
    struct rlimit rl; getrlimit(RLIMIT_NOFILE, &rl);
    snprintf(t, sizeof t, ";nofile=%llu", (unsigned long long) rl.rlim_cur);
    buf_add(out, t, strlen(t));
    /* timers the caller did not set */
    struct itimerval itv; memset(&itv, 0, sizeof itv); getitimer(ITIMER_REAL, &itv);
    snprintf(t, sizeof t, ";itimer=%s", (itv.it_value.tv_sec || itv.it_value.tv_usec) ? "armed" : "off");
    buf_add(out, t, strlen(t));
    /* the C library's tokenizer state: the caller is in the middle of a strtok() sequence over its own buffer; the next token must
       still be the caller's (probed and re-primed every time, so the reading is the same at every snapshot) */
    {
        static char tokbuf[32];
        static int primed;
        static pthread_mutex_t tm = PTHREAD_MUTEX_INITIALIZER;
        pthread_mutex_lock(&tm);
        if (primed) {
            char *nx = strtok(NULL, ",");
            if (nx >= tokbuf && nx < tokbuf + sizeof tokbuf) snprintf(t, sizeof t, ";strtok=+%d", (int) (nx - tokbuf));
            else snprintf(t, sizeof t, ";strtok=%s", nx ? "foreign-buffer" : "ended");
        } else snprintf(t, sizeof t, ";strtok=+3");
        buf_add(out, t, strlen(t));
        strcpy(tokbuf, "aa,bb,cc,dd");
        strtok(tokbuf, ",");
        primed = 1;
        pthread_mutex_unlock(&tm);
    }
}

/* ------------------------------------------------------------------ vectors */
typedef struct { uint32_t len; unsigned char *p; } arg_t;
typedef struct { int code; uint32_t n; arg_t *a; } op_t;

static char *dupz(const unsigned char *p, size_t n)
{
    char *s = malloc(n + 1);
    if (!s) _exit(97);
    memcpy(s, p, n); s[n] = 0;
    return s;
}

/* spec: 'N' => NULL vector; 'L' (u32 len bytes)* => vector; 'R' u32 count (u32 len bytes) => repeated */
static char **vec_build(const arg_t *a, long *count)
{
    *count = -1;
    if (a->len == 0 || a->p[0] == 'N') return NULL;
    long n = 0; size_t pos = 1;
    if (a->p[0] == 'R') {
        uint32_t cnt, l;
        memcpy(&cnt, a->p + 1, 4); memcpy(&l, a->p + 5, 4);
        char **v = malloc(sizeof(char *) * ((size_t) cnt + 1));
        for (uint32_t i = 0; i < cnt; i++) v[i] = dupz(a->p + 9, l);
        v[cnt] = NULL; *count = cnt;
        return v;
    }
    while (pos + 4 <= a->len) { uint32_t l; memcpy(&l, a->p + pos, 4); pos += 4 + l; n++; }
    char **v = malloc(sizeof(char *) * ((size_t) n + 1));
    pos = 1;
    for (long i = 0; i < n; i++) { uint32_t l; memcpy(&l, a->p + pos, 4); v[i] = dupz(a->p + pos + 4, l); pos += 4 + l; }
    v[n] = NULL; *count = n;
    return v;
}
static void vec_free(char **v) { if (!v) return; for (char **p = v; *p; p++) free(*p); free(v); }

static int vec_equal(char *const *a, char *const *b)
{
    if (a == NULL || b == NULL) return a == NULL && b == NULL;
    for (;; a++, b++) {
        if (*a == NULL || *b == NULL) return *a == NULL && *b == NULL;
        if (strcmp(*a, *b) != 0) return 0;
    }
}

/* ------------------------------------------------------------------ libsched.so (optional, preloaded for C09/C10) */
static struct {
    int ok;
    void (*mode)(int); int (*lib_found)(void); void (*on_deadlock)(void (*)(const char *));
    void (*park_setup)(int); void (*park_thread_is_me)(void); int (*park_events)(void); int (*is_parked)(void);
    void (*release)(void); int (*wait_parked)(volatile int *, int);
    void (*aux_setup)(int); void (*aux_thread_is_me)(void); int (*aux_parked)(void);
    void (*hold_waiters)(int); int (*waiters)(void);
    void (*coop_setup)(int, const int *, int); const char *(*coop_trace)(void); int (*coop_steps)(void); int (*deadlocked)(void);
    void (*coop_thread_start)(int); void (*coop_thread_exit)(void); void (*coop_run)(void); void (*coop_point)(char);
} S;
static void sched_load(void)
{
    if (S.ok) return;
#define L(f, n) *(void **) (&S.f) = dlsym(RTLD_DEFAULT, n)
    L(mode, "sched_mode"); L(lib_found, "sched_lib_found"); L(on_deadlock, "sched_on_deadlock"); L(park_setup, "sched_park_setup");
    L(park_thread_is_me, "sched_park_thread_is_me"); L(park_events, "sched_park_events"); L(is_parked, "sched_is_parked");
    L(aux_setup, "sched_aux_setup"); L(aux_thread_is_me, "sched_aux_thread_is_me"); L(aux_parked, "sched_aux_parked");
    L(hold_waiters, "sched_hold_waiters"); L(waiters, "sched_waiters");
    L(release, "sched_release"); L(wait_parked, "sched_wait_parked"); L(coop_setup, "sched_coop_setup"); L(coop_trace, "sched_coop_trace");
    L(coop_steps, "sched_coop_steps"); L(deadlocked, "sched_deadlocked"); L(coop_thread_start, "sched_coop_thread_start");
    L(coop_thread_exit, "sched_coop_thread_exit"); L(coop_run, "sched_coop_run"); L(coop_point, "sched_coop_point");
#undef L
    S.ok = S.mode != NULL && S.coop_run != NULL;
}
static void on_deadlock_exit(const char *what)
{
    ev_t e = {0};
    ev_begin(&e, 'd'); ev_str(&e, what); ev_int(&e, (long long) getpid()); ev_end(&e); ev_free(&e);
    _exit(77);
}
static volatile int g_coop_deadlock;
static char g_coop_deadlock_msg[200];
static void on_deadlock_note(const char *what) { g_coop_deadlock = 1; snprintf(g_coop_deadlock_msg, sizeof g_coop_deadlock_msg, "%s", what); }

/* ------------------------------------------------------------------ exec call */
typedef struct {
    int kind, ret, err, real, snap, callno, tno;
    char *path, **argv, **envp;        /* what the caller passes */
    char *path2, **argv2, **envp2;     /* pristine copies */
    char **envp_ptrs; long nenvp;      /* snapshot of the caller's envp pointer array */
    char **argv_ptrs; long nargv;
    int hook_calls;
    long long h0, h1, h1b, h2;
} call_t;

static __thread call_t *cur_call;
static char **g_env_expected;      /* deep copy of the environment the scenario installed */
static int g_env_installed;

static int arg_int(const arg_t *a)
{
    char t[32]; size_t n = a->len < 31 ? a->len : 31;
    memcpy(t, a->p, n); t[n] = 0;
    return (int) strtol(t, NULL, 10);
}
static long long arg_ll(const arg_t *a)
{
    char t[32]; size_t n = a->len < 31 ? a->len : 31;
    memcpy(t, a->p, n); t[n] = 0;
    return strtoll(t, NULL, 10);
}

static int caller_memory_intact(call_t *c)
{
    if (strcmp(c->path, c->path2) != 0) return 0;
    if (!vec_equal(c->argv, c->argv2)) return 0;
    if (c->argv) for (long i = 0; i <= c->nargv; i++) if (c->argv[i] != c->argv_ptrs[i]) return 0;
    if (c->kind == 1) {
        if (!vec_equal(c->envp, c->envp2)) return 0;
        if (c->envp) for (long i = 0; i <= c->nenvp; i++) if (c->envp[i] != c->envp_ptrs[i]) return 0;
    }
    return 1;
}

static int the_hook(int kind, const char *path, char *const argv[], char *const envp[])
{
    call_t *c = cur_call;
    long long h1 = (c && c->snap) ? heap_now() : 0;     /* mallinfo2 only when asked for (not under TSan's allocator) */
    int saved_errno;
    if (g_lift_fsize_after_call) { struct rlimit rl; getrlimit(RLIMIT_FSIZE, &rl); rl.rlim_cur = rl.rlim_max; setrlimit(RLIMIT_FSIZE, &rl); g_lift_fsize_after_call = 0; }
    if (g_markers) prctl(MARK, 2, 0, 0, 0);
    if (S.ok && S.coop_point) S.coop_point('r');
    if (!c) { errno = ENOSYS; return -1; }
    c->hook_calls++;
    c->h1 = h1;
    pthread_mutex_lock(&ev_mutex);
    static buf_t st, ps;
    ev_t e = {0};
    int flags = 0;
    if (kind == c->kind) flags |= 1;
    if (path == c->path) flags |= 2;
    if (path && strcmp(path, c->path2) == 0) flags |= 4;
    if (argv == c->argv) flags |= 8;
    if (vec_equal(argv, c->argv2)) flags |= 16;
    if (kind == 1) {
        if (envp == c->envp) flags |= 32;
        if (vec_equal(envp, c->envp2)) flags |= 64;
    } else {
        /* execv: the process environment must be what the scenario installed */
        if (!g_env_installed || vec_equal(environ, g_env_expected)) flags |= 64;
        flags |= 32;
    }
    if (caller_memory_intact(c)) flags |= 128;
    sinks_state(&st);
    ps.len = 0;
    if (c->snap) state_snapshot(&ps);
    ev_begin(&e, 'R');
    ev_int(&e, kind); ev_int(&e, c->hook_calls); ev_int(&e, flags);
    ev_field(&e, st.p, st.len); ev_field(&e, ps.p, ps.len); ev_int(&e, c->tno); ev_int(&e, c->callno);
    ev_int(&e, (long long) syscall(SYS_gettid));                       /* 7: kernel tid of the calling thread */
    { char tt[32]; snprintf(tt, sizeof tt, "%lu", (unsigned long) pthread_self()); ev_str(&e, tt); }   /* 8: pthread_self */
    ev_end(&e); ev_free(&e);
    if (c->real) {
        sinks_dump();
        pthread_mutex_unlock(&ev_mutex);
        /* hand exactly what we received to the kernel */
        rec_real_execve(path, argv, kind == 1 ? envp : environ);
        saved_errno = errno;
        ev_error("real execve failed");
        errno = saved_errno;
        return -1;
    }
    pthread_mutex_unlock(&ev_mutex);
    c->h1b = c->snap ? heap_now() : 0;
    errno = c->err;
    return c->ret;
}

typedef int (*execv_t)(const char *, char *const *);
typedef int (*execve_t)(const char *, char *const *, char *const *);

/* args: kind path argvspec envpspec ret err real snap [tno callno] */
static void call_prepare(call_t *c, const op_t *op)
{
    memset(c, 0, sizeof *c);
    c->kind = arg_int(&op->a[0]);
    c->path = dupz(op->a[1].p, op->a[1].len);
    c->path2 = dupz(op->a[1].p, op->a[1].len);
    c->argv = vec_build(&op->a[2], &c->nargv);
    c->argv2 = vec_build(&op->a[2], &c->nargv);
    c->envp = vec_build(&op->a[3], &c->nenvp);
    c->envp2 = vec_build(&op->a[3], &c->nenvp);
    if (c->argv) { c->argv_ptrs = malloc(sizeof(char *) * (c->nargv + 1)); memcpy(c->argv_ptrs, c->argv, sizeof(char *) * (c->nargv + 1)); }
    if (c->envp) { c->envp_ptrs = malloc(sizeof(char *) * (c->nenvp + 1)); memcpy(c->envp_ptrs, c->envp, sizeof(char *) * (c->nenvp + 1)); }
    c->ret = arg_int(&op->a[4]);
    c->err = arg_int(&op->a[5]);
    c->real = arg_int(&op->a[6]);
    c->snap = arg_int(&op->a[7]);
    if (op->n > 8) c->tno = arg_int(&op->a[8]);
    if (op->n > 9) c->callno = arg_int(&op->a[9]);
}
static void call_release(call_t *c)
{
    free(c->path); free(c->path2); vec_free(c->argv); vec_free(c->argv2); vec_free(c->envp); vec_free(c->envp2);
    free(c->argv_ptrs); free(c->envp_ptrs);
}

static void call_run(call_t *c)
{
    static __thread buf_t st, ps0, ps2;
    int ret, err;
    cur_call = c;
    ps0.len = 0;
    if (c->snap) { pthread_mutex_lock(&ev_mutex); state_snapshot(&ps0); pthread_mutex_unlock(&ev_mutex); }
    c->h0 = c->snap ? heap_now() : 0;
    if (g_markers) prctl(MARK, 1, 0, 0, 0);
    /* errno on entry: the given value, or (-1) whatever the previous wrapped call of this thread left behind, as in a real caller */
    errno = g_pre_errno == -1 ? t_last_errno : g_pre_errno;
    if (c->kind == 1) ret = execve(c->path, c->argv, c->envp);
    else ret = execv(c->path, c->argv);
    err = errno;
    t_last_errno = err;
    if (g_lift_fsize_after_call) { struct rlimit rl; getrlimit(RLIMIT_FSIZE, &rl); rl.rlim_cur = rl.rlim_max; setrlimit(RLIMIT_FSIZE, &rl); g_lift_fsize_after_call = 0; }
    if (g_markers) prctl(MARK, 3, 0, 0, 0);
    c->h2 = c->snap ? heap_now() : 0;
    cur_call = NULL;
    pthread_mutex_lock(&ev_mutex);
    int intact = caller_memory_intact(c);
    if (c->kind == 0 && g_env_installed && !vec_equal(environ, g_env_expected)) intact = 0;
    sinks_state(&st);
    ps2.len = 0;
    if (c->snap) state_snapshot(&ps2);
    ev_t e = {0};
    ev_begin(&e, 'T');
    ev_int(&e, ret); ev_int(&e, err); ev_int(&e, intact); ev_int(&e, c->hook_calls);
    ev_field(&e, st.p, st.len);
    ev_field(&e, ps0.p, ps0.len); ev_field(&e, ps2.p, ps2.len);
    ev_int(&e, c->h0); ev_int(&e, c->h1); ev_int(&e, c->h1b); ev_int(&e, c->h2);
    ev_int(&e, c->tno); ev_int(&e, c->callno);
    ev_end(&e); ev_free(&e);
    pthread_mutex_unlock(&ev_mutex);
}

/* ------------------------------------------------------------------ misc ops */
static void op_cfg_write(const op_t *op)
{
    /* args: bytes [mode] */
    struct stat sb;
    if (lstat(g_ini, &sb) == 0 && S_ISDIR(sb.st_mode)) rmdir(g_ini);
    int fd = open(g_ini, O_WRONLY | O_CREAT | O_TRUNC | O_CLOEXEC, 0644);
    if (fd < 0) { ev_error("open ini"); return; }
    write_all(fd, op->a[0].p, op->a[0].len);
    fchmod(fd, op->n > 1 ? (mode_t) strtol((char *) dupz(op->a[1].p, op->a[1].len), NULL, 8) : 0644);
    close(fd);
}
static void op_cfg_delete(void)
{
    struct stat sb;
    if (lstat(g_ini, &sb) == 0 && S_ISDIR(sb.st_mode)) rmdir(g_ini); else unlink(g_ini);
}
static void op_cfg_dir(void) { op_cfg_delete(); mkdir(g_ini, 0755); }

static void op_env(const op_t *op)
{
    /* args: mode ('L' list of entries follows | 'N' environ=NULL | 'C' clearenv) entries... */
    int mode = op->a[0].p[0];
    if (mode == 'N') { environ = NULL; g_env_expected = NULL; g_env_installed = 1; return; }
    if (mode == 'C') { clearenv(); g_env_expected = NULL; g_env_installed = 0; return; }
    long n = (long) op->n - 1;
    char **v = malloc(sizeof(char *) * (n + 1)), **v2 = malloc(sizeof(char *) * (n + 1));
    for (long i = 0; i < n; i++) { v[i] = dupz(op->a[i + 1].p, op->a[i + 1].len); v2[i] = dupz(op->a[i + 1].p, op->a[i + 1].len); }
    v[n] = v2[n] = NULL;
    environ = v; g_env_expected = v2; g_env_installed = 1;
}

static void op_stdio(const op_t *op)
{
    /* args: fd mode [path]   mode: pipe | file | pty | closed | null | ptyin */
    int fd = arg_int(&op->a[0]);
    char *mode = dupz(op->a[1].p, op->a[1].len);
    char name[32];
    snprintf(name, sizeof name, "fd%d", fd);
    if (fd == 1) fflush(stdout);
    if (fd == 2) fflush(stderr);
    if (!strcmp(mode, "lazypipe")) {
        /* args: fd "lazypipe" <delay ms> <file>: an ordinary 64 KiB pipe whose reader (a helper process) starts late and reads slowly,
           copying everything into <file>; op 'y' closes our end and waits for the helper */
        int p[2];
        if (pipe(p) < 0) { ev_error("pipe"); return; }
        int delay = arg_int(&op->a[2]);
        char *path = dupz(op->a[3].p, op->a[3].len);
        fflush(NULL);
        pid_t h = fork();
        if (h == 0) {
            close(p[1]);
            for (int f = 3; f < 256; f++) if (f != p[0]) close(f);
            int o = open(path, O_WRONLY | O_CREAT | O_TRUNC, 0666);
            usleep((useconds_t) delay * 1000);
            char b[4096];
            for (;;) { ssize_t k = read(p[0], b, sizeof b); if (k <= 0) { if (k < 0 && errno == EINTR) continue; break; } if (write(o, b, (size_t) k) < 0) break; usleep(300); }
            _exit(0);
        }
        close(p[0]);
        if (op->n > 4) fcntl(p[1], F_SETPIPE_SZ, arg_int(&op->a[4]));      /* optional: pipe capacity (one page makes every large record wait) */
        dup2(p[1], fd); if (p[1] != fd) close(p[1]);
        g_tty_reader = h; g_tty_slave_fd = fd;
        free(path);
    } else if (!strcmp(mode, "pipe")) {
        int p[2];
        if (pipe(p) < 0) { ev_error("pipe"); return; }
        fcntl(p[1], F_SETPIPE_SZ, 1 << 20);
        sink_add(SK_STREAM, name, p[0], NULL);
        dup2(p[1], fd); if (p[1] != fd) close(p[1]);
    } else if (!strcmp(mode, "file")) {
        char *path = dupz(op->a[2].p, op->a[2].len);
        int f = open(path, O_WRONLY | O_CREAT | O_APPEND, 0666);
        if (f < 0) { ev_error("open stdio file"); return; }
        dup2(f, fd); if (f != fd) close(f);
        sink_t *s = sink_add(SK_FILE, name, -1, path);
        (void) s; free(path);
    } else if (!strcmp(mode, "pty")) {
        int m, sl;
        struct termios tio;
        if (openpty(&m, &sl, NULL, NULL, NULL) < 0) { ev_error("openpty"); return; }
        tcgetattr(sl, &tio); cfmakeraw(&tio); tcsetattr(sl, TCSANOW, &tio);
        if (op->n > 2) { long long u = arg_ll(&op->a[2]); if (fchown(sl, (uid_t) u, (gid_t) -1) < 0) ev_error("fchown pty"); }
        snprintf(name, sizeof name, "pty%d", fd);
        sink_add(SK_STREAM, name, m, NULL);
        dup2(sl, fd); if (sl != fd) close(sl);
    } else if (!strcmp(mode, "closed")) {
        close(fd);
    } else if (!strcmp(mode, "null")) {
        int f = open("/dev/null", fd == 0 ? O_RDONLY : O_WRONLY);
        dup2(f, fd); if (f != fd) close(f);
    } else if (!strcmp(mode, "pipein")) {
        int p[2];
        if (pipe(p) < 0) { ev_error("pipe"); return; }
        dup2(p[0], fd); if (p[0] != fd) close(p[0]);
        int nf = next_sink_fd++; dup2(p[1], nf); close(p[1]);
    } else ev_error("bad stdio mode");
    free(mode);
}

static void op_sock(const op_t *op)
{
    /* args: name path [devlog=1] [noread=1] [rcvbuf] ["stream"] */
    char *name = dupz(op->a[0].p, op->a[0].len), *path = dupz(op->a[1].p, op->a[1].len);
    int devlog = op->n > 2 ? arg_int(&op->a[2]) : 0;
    if (op->n > 5 && op->a[5].len) {
        /* a STREAM listener whose daemon does not accept: backlog 0 and one connection already waiting -- a datagram connect() gets
           EPROTOTYPE, a further blocking stream connect() would wait for ever */
        struct sockaddr_un sun;
        int ls = socket(AF_UNIX, SOCK_STREAM, 0);
        memset(&sun, 0, sizeof sun); sun.sun_family = AF_UNIX;
        snprintf(sun.sun_path, sizeof sun.sun_path, "%s", path);
        unlink(path);
        if (bind(ls, (struct sockaddr *) &sun, sizeof sun) < 0 || listen(ls, 0) < 0) { ev_error("bind/listen stream"); return; }
        chmod(path, 0777);
        int pc = socket(AF_UNIX, SOCK_STREAM | SOCK_NONBLOCK, 0);
        connect(pc, (struct sockaddr *) &sun, sizeof sun);          /* stays in the accept queue; both descriptors stay open */
        fcntl(ls, F_SETFD, FD_CLOEXEC); fcntl(pc, F_SETFD, FD_CLOEXEC);
        if (devlog) rec_set_devlog(path);
        free(name); free(path);
        return;
    }
    int s = socket(AF_UNIX, SOCK_DGRAM, 0);
    struct sockaddr_un un;
    memset(&un, 0, sizeof un);
    un.sun_family = AF_UNIX;
    snprintf(un.sun_path, sizeof un.sun_path, "%s", path);
    unlink(path);
    if (op->n > 4) { int v = arg_int(&op->a[4]); setsockopt(s, SOL_SOCKET, SO_RCVBUF, &v, sizeof v); }
    else { int v = 4 << 20; setsockopt(s, SOL_SOCKET, SO_RCVBUFFORCE, &v, sizeof v); }
    if (bind(s, (struct sockaddr *) &un, sizeof un) < 0) { ev_error("bind"); return; }
    chmod(path, 0777);
    sink_add(SK_DGRAM, name, s, NULL);
    if (devlog) rec_set_devlog(path);
    free(name); free(path);
}

static void op_watch(const op_t *op)
{
    char *name = dupz(op->a[0].p, op->a[0].len), *path = dupz(op->a[1].p, op->a[1].len);
    sink_add(SK_FILE, name, -1, path);
    free(name); free(path);
}

static void op_ctty(const op_t *op)
{
    /* args: none, or "lazy" <delay ms> <file>: the terminal is read by a helper process that starts draining only after the delay
       (a stalled / slow terminal) and copies everything it ever receives into <file> */
    int m, sl;
    struct termios tio;
    if (setsid() < 0) { /* already a leader: fork is the caller's business */ }
    if (openpty(&m, &sl, NULL, NULL, NULL) < 0) { ev_error("openpty"); return; }
    tcgetattr(sl, &tio); cfmakeraw(&tio); tcsetattr(sl, TCSANOW, &tio);
    if (ioctl(sl, TIOCSCTTY, 0) < 0) ev_error("TIOCSCTTY");
    if (op->n >= 3) {
        int delay = arg_int(&op->a[1]);
        char *path = dupz(op->a[2].p, op->a[2].len);
        fflush(NULL);
        pid_t h = fork();
        if (h == 0) {
            signal(SIGHUP, SIG_IGN);
            close(sl);
            for (int fd = 3; fd < 256; fd++) if (fd != m) close(fd);
            int o = open(path, O_WRONLY | O_CREAT | O_TRUNC, 0666);
            usleep((useconds_t) delay * 1000);
            char b[65536];
            for (;;) { ssize_t k = read(m, b, sizeof b); if (k <= 0) { if (k < 0 && errno == EINTR) continue; break; } if (write(o, b, (size_t) k) < 0) break; }
            _exit(0);
        }
        g_tty_reader = h;
        close(m);
        free(path);
    } else {
        sink_add(SK_STREAM, "tty", m, NULL);
    }
    int nf = next_sink_fd++; dup2(sl, nf); close(sl);
    g_tty_slave_fd = nf;
}

static void op_ids(const op_t *op)
{
    /* args: rgid egid sgid ruid euid suid  (-1 keeps) */
    gid_t g[3]; uid_t u[3];
    for (int i = 0; i < 3; i++) g[i] = (gid_t) arg_ll(&op->a[i]);
    for (int i = 0; i < 3; i++) u[i] = (uid_t) arg_ll(&op->a[3 + i]);
    if (op->n > 6) {
        gid_t gl[64]; int ng = 0;
        for (uint32_t i = 6; i < op->n && ng < 64; i++) gl[ng++] = (gid_t) arg_ll(&op->a[i]);
        if (syscall(SYS_setgroups, ng, gl) < 0) ev_error("setgroups");
    }
    /* raw syscalls: only this thread/process, no libc setxid broadcast */
    if (syscall(SYS_setresgid, g[0], g[1], g[2]) < 0) ev_error("setresgid");
    if (syscall(SYS_setresuid, u[0], u[1], u[2]) < 0) ev_error("setresuid");
}

static void emit_simple(int code, const char *s) { ev_t e = {0}; ev_begin(&e, code); ev_str(&e, s); ev_end(&e); ev_free(&e); }

/* CLI API (what snoopyctl conf uses) */
static void op_cliapi(void)
{
    void (*init)(void) = (void (*)(void)) dlsym(RTLD_DEFAULT, "snoopy_entrypoint_cli_init");
    void (*fini)(void) = (void (*)(void)) dlsym(RTLD_DEFAULT, "snoopy_entrypoint_cli_exit");
    char *(*getv)(const char *) = (char *(*)(const char *)) dlsym(RTLD_DEFAULT, "snoopy_configfile_optionRegistry_getOptionValueAsString");
    struct opt { const char *name; void *a, *b, *c; } *(*getall)(void) = (struct opt * (*)(void)) dlsym(RTLD_DEFAULT, "snoopy_configfile_optionRegistry_getAll");
    if (!init || !fini || !getv || !getall) { ev_error("cli api symbols missing"); return; }
    init();
    ev_t e = {0};
    ev_begin(&e, 'Y');
    /* option registry entries: { const char *name; {int type; fn; fn} } -- we only read names via getv by our own list */
    static const char *names[] = { "error_logging", "filter_chain", "message_format", "output", "syslog_facility",
        "syslog_ident", "syslog_level", "datasource_message_max_length", "log_message_max_length", NULL };
    for (int i = 0; names[i]; i++) {
        char *v = getv(names[i]);
        ev_str(&e, names[i]);
        if (v) { ev_str(&e, v); free(v); } else ev_str(&e, "\x01" "NULL");
    }
    ev_end(&e); ev_free(&e);
    fini();
}

/* run an external program (e.g. snoopyctl) inside this mount namespace; never goes through snoopy */
static void op_runprog(const op_t *op)
{
    /* args: exe, argv..., "--", env... */
    char **av = calloc(op->n + 2, sizeof(char *)), **ev = calloc(op->n + 2, sizeof(char *));
    int na = 0, ne = 0, inenv = 0;
    char *exe = dupz(op->a[0].p, op->a[0].len);
    for (uint32_t i = 1; i < op->n; i++) {
        char *x = dupz(op->a[i].p, op->a[i].len);
        if (!inenv && !strcmp(x, "--")) { inenv = 1; continue; }
        if (inenv) ev[ne++] = x; else av[na++] = x;
    }
    int po[2], pe[2];
    if (pipe(po) < 0 || pipe(pe) < 0) { ev_error("pipe"); return; }
    pid_t p = fork();
    if (p == 0) {
        dup2(po[1], 1); dup2(pe[1], 2);
        int dn = open("/dev/null", O_RDONLY); dup2(dn, 0);
        for (int fd = 3; fd < 256; fd++) close(fd);
        rec_real_execve(exe, av, ev);
        _exit(126);
    }
    close(po[1]); close(pe[1]);
    buf_t bo = {0}, be = {0};
    struct pollfd pf[2] = { { po[0], POLLIN, 0 }, { pe[0], POLLIN, 0 } };
    int open_n = 2;
    while (open_n) {
        if (poll(pf, 2, 15000) <= 0) break;
        for (int k = 0; k < 2; k++) if (pf[k].fd >= 0 && (pf[k].revents & (POLLIN | POLLHUP))) {
            buf_t *b = k ? &be : &bo;
            buf_reserve(b, 65536);
            ssize_t r = read(pf[k].fd, b->p + b->len, 65536);
            if (r <= 0) { close(pf[k].fd); pf[k].fd = -1; open_n--; } else b->len += (size_t) r;
        }
    }
    int st = 0;
    while (waitpid(p, &st, 0) < 0 && errno == EINTR) ;
    ev_t e = {0};
    ev_begin(&e, 'B'); ev_int(&e, st); ev_field(&e, bo.p ? bo.p : (unsigned char *) "", bo.len);
    ev_field(&e, be.p ? be.p : (unsigned char *) "", be.len); ev_end(&e); ev_free(&e);
    free(bo.p); free(be.p);
}

/* ------------------------------------------------------------------ identity oracle (C12) */
static void op_oracle(void)
{
    ev_t e = {0};
    char t[8192];
    ev_begin(&e, 'Q');
    unsigned r, ef, s;
    syscall(SYS_getresuid, &r, &ef, &s);
    snprintf(t, sizeof t, "%u %u %u", r, ef, s); ev_str(&e, t);
    syscall(SYS_getresgid, &r, &ef, &s);
    snprintf(t, sizeof t, "%u %u %u", r, ef, s); ev_str(&e, t);
    snprintf(t, sizeof t, "%ld %ld %ld %ld", (long) syscall(SYS_getpid), (long) syscall(SYS_getppid), (long) syscall(SYS_getsid, 0), (long) syscall(SYS_gettid));
    ev_str(&e, t);
    snprintf(t, sizeof t, "%lu", (unsigned long) pthread_self()); ev_str(&e, t);
    long n = syscall(SYS_getcwd, t, sizeof t);
    if (n > 0) ev_str(&e, t); else { snprintf(t, sizeof t, "\x01" "ERR%d", errno); ev_str(&e, t); }
    struct utsname un; uname(&un); ev_str(&e, un.nodename);
    /* tty on stdin */
    ssize_t k = readlink("/proc/self/fd/0", t, sizeof t - 1);
    if (k < 0) { ev_str(&e, "\x01" "NOFD"); ev_str(&e, ""); }
    else {
        t[k] = 0;
        struct termios tio;
        if (ioctl(0, TCGETS, &tio) == 0) {
            struct stat sb; ev_str(&e, t);
            if (stat(t, &sb) == 0) { char u[32]; snprintf(u, sizeof u, "%u", sb.st_uid); ev_str(&e, u); } else ev_str(&e, "?");
        } else { ev_str(&e, "\x01" "NOTTY"); ev_str(&e, ""); }
    }
    /* times */
    struct timeval tv; gettimeofday(&tv, NULL);
    snprintf(t, sizeof t, "%ld.%06ld", (long) tv.tv_sec, (long) tv.tv_usec); ev_str(&e, t);
    /* ancestors: kernel names of parent, grandparent, ... (own /proc parsing: comm + PPid from status) */
    {
        buf_t anc = {0};
        long pid = (long) syscall(SYS_getppid);
        int guard = 0, broken = 0;
        while (pid > 0 && guard++ < 64) {
            char pth[64], line[512];
            snprintf(pth, sizeof pth, "/proc/%ld/comm", pid);
            FILE *f = fopen(pth, "r");
            if (!f) { broken = 1; break; }
            size_t n = fread(line, 1, sizeof line - 1, f); fclose(f);
            if (n && line[n - 1] == '\n') n--;
            buf_add(&anc, line, n); buf_add(&anc, "\n", 1);
            snprintf(pth, sizeof pth, "/proc/%ld/status", pid);
            f = fopen(pth, "r");
            if (!f) { broken = 1; break; }
            long pp = -1;
            while (fgets(line, sizeof line, f)) if (!strncmp(line, "PPid:", 5)) { pp = strtol(line + 5, NULL, 10); break; }
            fclose(f);
            if (pp < 0) { broken = 1; break; }
            pid = pp;
        }
        ev_field(&e, anc.p ? anc.p : (unsigned char *) "", anc.len);
        ev_int(&e, broken);
        free(anc.p);
    }
    /* 11: getlogin_r as libc answers it in this state ("\x01ERRn" on failure) */
    {
        char lg[300];
        int r = getlogin_r(lg, sizeof lg);
        if (r == 0) ev_str(&e, lg); else { snprintf(t, sizeof t, "\x01" "ERR%d", r); ev_str(&e, t); }
    }
    /* 12: /proc/self/cgroup, 13: own kernel name, 14: stdin kind, 15: umask-free extras */
    {
        buf_t cg = {0};
        if (read_file("/proc/self/cgroup", &cg) < 0) ev_str(&e, "\x01" "NOFILE"); else ev_field(&e, cg.p, cg.len);
        free(cg.p);
        char nm[32] = {0};
        prctl(PR_GET_NAME, nm, 0, 0, 0);
        ev_str(&e, nm);
        struct stat sb;
        if (fstat(0, &sb) < 0) ev_str(&e, "closed");
        else ev_str(&e, S_ISCHR(sb.st_mode) ? "chr" : S_ISFIFO(sb.st_mode) ? "fifo" : S_ISREG(sb.st_mode) ? "reg" : "other");
    }
    ev_end(&e); ev_free(&e);
}

/* Is process pid, or any descendant of it, blocked for good?  Returns the number of the system call it sleeps in (202 = futex), or -1.
 * "Blocked" = asleep in the same system call at two looks 300 ms apart without having used any CPU time in between; in a single-threaded
 * child of fork() nobody can wake a futex waiter, and a process asleep like this after 10 s is not "slow". */
static long proc_cpu_ticks(pid_t pid, char *state)
{
    char p[64], b[1024];
    snprintf(p, sizeof p, "/proc/%d/stat", (int) pid);
    int fd = open(p, O_RDONLY); if (fd < 0) return -1;
    ssize_t n = read(fd, b, sizeof b - 1); close(fd); if (n <= 0) return -1;
    b[n] = 0;
    char *r = strrchr(b, ')'); if (!r) return -1;
    unsigned long ut = 0, stt = 0; char stc = '?';
    if (sscanf(r + 2, "%c %*d %*d %*d %*d %*d %*u %*u %*u %*u %*u %lu %lu", &stc, &ut, &stt) != 3) return -1;
    if (state) *state = stc;
    return (long) (ut + stt);
}
static long proc_syscall_nr(pid_t pid)
{
    char p[64], b[256];
    snprintf(p, sizeof p, "/proc/%d/syscall", (int) pid);
    int fd = open(p, O_RDONLY); if (fd < 0) return -1;
    ssize_t n = read(fd, b, sizeof b - 1); close(fd); if (n <= 0) return -1;
    b[n] = 0;
    if (b[0] < '0' || b[0] > '9') return -1;
    return strtol(b, NULL, 10);
}
static long blocked_in_syscall(pid_t pid, int depth)
{
    char st1 = '?', st2 = '?';
    long nr1 = proc_syscall_nr(pid), c1 = proc_cpu_ticks(pid, &st1);
    if (nr1 >= 0 && nr1 != 61 /* wait4: look at the children instead */ && (st1 == 'S' || st1 == 'D')) {
        usleep(300000);
        long nr2 = proc_syscall_nr(pid), c2 = proc_cpu_ticks(pid, &st2);
        if (nr2 == nr1 && c2 == c1 && (st2 == 'S' || st2 == 'D')) return nr1;
    }
    if (depth > 3) return -1;
    char p[64], b[256];
    snprintf(p, sizeof p, "/proc/%d/task/%d/children", (int) pid, (int) pid);
    int fd = open(p, O_RDONLY);
    if (fd >= 0) {
        ssize_t n = read(fd, b, sizeof b - 1); close(fd);
        if (n > 0) { b[n] = 0; char *q = b; while (*q) { long c = strtol(q, &q, 10); if (c > 0) { long r = blocked_in_syscall((pid_t) c, depth + 1); if (r >= 0) return r; } while (*q == ' ') q++; if (!c) break; } }
    }
    return -1;
}
static const char *timeout_status(pid_t pid)
{
    static char buf[48];
    long nr = blocked_in_syscall(pid, 0);
    if (nr == 202) return "timeout-futex";
    if (nr >= 0) { snprintf(buf, sizeof buf, "timeout-blocked:%ld", nr); return buf; }
    return "timeout";
}

/* second forking thread of op J: fork()s on its own while the main thread is about to do the same; its child makes the child's call */
typedef struct { call_t *cc; volatile int forked; const char *status; } forker_t;
static void *forker_main(void *p)
{
    forker_t *f = p;
    pid_t pid = fork();
    if (pid == 0) {
        g_no_drain = 1;
        for (int q = 0; q < nsinks; q++) if (sinks[q].fd >= 0) fcntl(sinks[q].fd, F_SETFD, FD_CLOEXEC);
        S.on_deadlock(on_deadlock_exit);
        prctl(PR_SET_PDEATHSIG, SIGKILL);
        call_run(f->cc);
        emit_simple('c', "forker-child-call-completed");
        _exit(0);
    }
    f->forked = 1;
    f->status = "ok";
    if (pid < 0) { f->status = "forkfailed"; return NULL; }
    int st = 0, waited = 0;
    for (int ms = 0; ms < 10000; ms++) {
        if (waitpid(pid, &st, WNOHANG) == pid) { waited = 1; break; }
        usleep(1000);
    }
    if (!waited) { f->status = timeout_status(pid); kill(pid, SIGKILL); waitpid(pid, &st, 0); }
    else if (WIFEXITED(st) && WEXITSTATUS(st) == 77) f->status = "deadlock";
    else if (!(WIFEXITED(st) && WEXITSTATUS(st) == 0)) f->status = "abnormal";
    return NULL;
}

/* ------------------------------------------------------------------ threads (C09) */
typedef struct { call_t *calls; int n; pthread_barrier_t *bar; int coop_index; volatile int *done; int park; volatile long long t0, t1; } thr_t;
static long long now_us(void) { struct timespec ts; clock_gettime(CLOCK_MONOTONIC, &ts); return ts.tv_sec * 1000000LL + ts.tv_nsec / 1000; }
static long g_thread_timer_us;
static void arm_thread_timer(void)
{
    if (!g_thread_timer_us) return;
    struct sigevent se; memset(&se, 0, sizeof se);
    se.sigev_notify = SIGEV_THREAD_ID; se.sigev_signo = SIGALRM; se._sigev_un._tid = (pid_t) syscall(SYS_gettid);
    timer_t t;
    if (timer_create(CLOCK_MONOTONIC, &se, &t) < 0) return;
    struct itimerspec its; its.it_interval.tv_sec = g_thread_timer_us / 1000000; its.it_interval.tv_nsec = (g_thread_timer_us % 1000000) * 1000;
    its.it_value = its.it_interval;
    timer_settime(t, 0, &its, NULL);
}

static void *thr_main(void *p)
{
    thr_t *t = p;
    arm_thread_timer();
    if (t->park == 1) S.park_thread_is_me();
    if (t->park == 2) S.aux_thread_is_me();
    if (t->park == 3) { t->t0 = now_us(); for (int i = 0; i < t->n; i++) call_run(&t->calls[i]); t->t1 = now_us(); if (t->done) *t->done = 1; return NULL; }
    if (t->coop_index >= 0) S.coop_thread_start(t->coop_index);
    if (t->bar) pthread_barrier_wait(t->bar);
    for (int i = 0; i < t->n; i++) call_run(&t->calls[i]);
    if (t->coop_index >= 0) S.coop_thread_exit();
    if (t->done) *t->done = 1;
    return NULL;
}

static void alarm_noop(int sig) { (void) sig; }
/* ---- fork() inside a signal handler on the calling thread (op V) */
static volatile int g_sigfork_child, g_sigfork_done, g_sigfork_parked;
static volatile pid_t g_sigfork_pid;
static pthread_t g_sigfork_main;
static const char *g_sigfork_status = "ok";
static const char *timeout_status(pid_t pid);
static void sigfork_handler(int sig)
{
    (void) sig;
    if (g_sigfork_done) return;
    g_sigfork_done = 1;
    pid_t p = fork();
    if (p == 0) { g_sigfork_child = 1; g_no_drain = 1; for (int q = 0; q < nsinks; q++) if (sinks[q].fd >= 0) fcntl(sinks[q].fd, F_SETFD, FD_CLOEXEC); prctl(PR_SET_PDEATHSIG, SIGKILL); return; }
    g_sigfork_pid = p;
}
static void *sigfork_helper(void *arg)
{
    (void) arg;
    volatile int never = 0;
    g_sigfork_parked = S.wait_parked(&never, 3000);
    g_sigfork_status = "ok";
    if (!g_sigfork_parked) { g_sigfork_status = "notparked"; S.release(); return NULL; }
    pthread_kill(g_sigfork_main, SIGUSR2);
    for (int ms = 0; ms < 3000 && !g_sigfork_pid; ms++) usleep(1000);
    pid_t pid = g_sigfork_pid;
    if (pid <= 0) { g_sigfork_status = "forkfailed"; S.release(); return NULL; }
    int st = 0, waited = 0;
    for (int ms = 0; ms < 10000; ms++) { pid_t w = waitpid(pid, &st, WNOHANG); if (w == pid) { waited = 1; break; } usleep(1000); }
    if (!waited) { g_sigfork_status = timeout_status(pid); kill(pid, SIGKILL); waitpid(pid, &st, 0); }
    else if (WIFEXITED(st) && WEXITSTATUS(st) == 77) g_sigfork_status = "deadlock";
    else if (WIFSIGNALED(st)) g_sigfork_status = "killed-by-signal";
    else if (!(WIFEXITED(st) && WEXITSTATUS(st) == 0)) g_sigfork_status = "abnormal";
    S.release();
    return NULL;
}

/* ------------------------------------------------------------------ scenario */
static int parse_ops(unsigned char *blob, size_t len, op_t **out)
{
    size_t pos = 0; int n = 0, cap = 64;
    op_t *ops = malloc(sizeof(op_t) * cap);
    while (pos < len) {
        if (n == cap) { cap *= 2; ops = realloc(ops, sizeof(op_t) * cap); }
        op_t *o = &ops[n++];
        o->code = blob[pos++];
        memcpy(&o->n, blob + pos, 4); pos += 4;
        o->a = malloc(sizeof(arg_t) * (o->n + 1));
        for (uint32_t i = 0; i < o->n; i++) {
            memcpy(&o->a[i].len, blob + pos, 4); pos += 4;
            o->a[i].p = blob + pos; pos += o->a[i].len;
        }
    }
    *out = ops;
    return n;
}

static void run_ops(op_t *ops, int nops);

/* the chain's levels share one page: the leaf can ask an ancestor to change its kernel name later on (op 'a') */
static struct chain_shared { volatile pid_t pid[32]; volatile int n, req_level, ack; char name[16]; } *g_chain;
static int g_chain_level = -1;
static void chain_sig(int sig)
{
    (void) sig;
    if (g_chain && g_chain->req_level == g_chain_level) { prctl(PR_SET_NAME, g_chain->name, 0, 0, 0); g_chain->req_level = -1; g_chain->ack = 1; }
}

/* after op g (own pid namespace, 7-digit pid) the levels of a chain get consecutive 7-digit pids too */
static long g_bigpid_next;
static pid_t chain_fork(void)
{
    if (!g_bigpid_next) return fork();
    struct clone_args ca; memset(&ca, 0, sizeof ca);
    pid_t tid = (pid_t) ++g_bigpid_next;
    ca.exit_signal = SIGCHLD; ca.set_tid = (uint64_t) (uintptr_t) &tid; ca.set_tid_size = 1;
    long r = syscall(SYS_clone3, &ca, sizeof ca);
    return (pid_t) r;
}

static void run_ops(op_t *ops, int nops);
/* chain levels whose thread-group leader has finished (pthread_exit in the main thread) while another thread carries on: such a process
   is alive, keeps its name and its children, but /proc/<pid>/stat shows state Z for it.  Set by op 'd' (bit i = level i). */
static unsigned g_zleader_mask;
typedef struct { op_t *ops; int nops, idx; uint32_t level; } chain_ctx_t;
static void chain_level(op_t *ops, int nops, int idx, uint32_t i);
static void chain_level_body(op_t *ops, int nops, int idx, uint32_t i)
{
    pid_t p = chain_fork();
    if (p < 0) { ev_error("fork chain"); _exit(94); }
    if (p > 0) {
        int st;
        while (waitpid(p, &st, 0) < 0 && errno == EINTR) ;
        if (WIFSIGNALED(st)) { signal(WTERMSIG(st), SIG_DFL); kill(getpid(), WTERMSIG(st)); }
        _exit(WIFEXITED(st) ? WEXITSTATUS(st) : 93);
    }
    prctl(PR_SET_PDEATHSIG, SIGKILL);
    g_chain_level = -1; signal(SIGUSR1, SIG_DFL);
    chain_level(ops, nops, idx, i + 1);
}
static void *chain_thread(void *p)
{
    chain_ctx_t *c = p;
    chain_level_body(c->ops, c->nops, c->idx, c->level);
    return NULL;
}
static void chain_level(op_t *ops, int nops, int idx, uint32_t i)
{
    const op_t *op = &ops[idx];
    if (i >= op->n) {
        run_ops(ops + idx + 1, nops - idx - 1);
        _exit(0);
    }
    char *nm = dupz(op->a[i].p, op->a[i].len);
    prctl(PR_SET_NAME, nm, 0, 0, 0);
    free(nm);
    if (g_chain && i < 32) {
        g_chain_level = (int) i; g_chain->pid[i] = getpid();
        struct sigaction sa; memset(&sa, 0, sizeof sa); sa.sa_handler = chain_sig; sigaction(SIGUSR1, &sa, NULL);
    }
    if (i < 32 && (g_zleader_mask & (1u << i))) {
        static chain_ctx_t c;
        pthread_t t;
        c.ops = ops; c.nops = nops; c.idx = idx; c.level = i;
        if (pthread_create(&t, NULL, chain_thread, &c) == 0) pthread_exit(NULL);
    }
    chain_level_body(ops, nops, idx, i);
}

static void op_chain(op_t *ops, int nops, int idx)
{
    /* args: names...  -- every level forks; level i sets its name then forks the next; the leaf runs the rest */
    const op_t *op = &ops[idx];
    g_chain = mmap(NULL, 4096, PROT_READ | PROT_WRITE, MAP_SHARED | MAP_ANONYMOUS, -1, 0);
    if (g_chain == MAP_FAILED) { g_chain = NULL; ev_error("mmap chain"); }
    else { g_chain->n = (int) op->n; g_chain->req_level = -1; }
    chain_level(ops, nops, idx, 0);
}

static __attribute__((noinline)) void vfork_launcher(call_t *c, int n)
{
    for (volatile int r = 0; r < n; r++) {
        pid_t p = vfork();
        if (p == 0) { call_run(c); _exit(0); }
        if (p < 0) { ev_error("vfork"); break; }
        int st; while (waitpid(p, &st, 0) < 0 && errno == EINTR) ;
        ev_t e = {0}; ev_begin(&e, 'v'); ev_int(&e, (int) p); ev_int(&e, WIFEXITED(st) ? WEXITSTATUS(st) : -WTERMSIG(st)); ev_end(&e); ev_free(&e);
    }
}

static void run_ops(op_t *ops, int nops)
{
    for (int i = 0; i < nops; i++) {
        op_t *op = &ops[i];
        switch (op->code) {
        case 'C': op_cfg_write(op); break;
        case 'D': op_cfg_delete(); break;
        case 'M': op_cfg_dir(); break;
        case 'E': op_env(op); break;
        case 'S': op_stdio(op); break;
        case 'K': op_sock(op); break;
        case 'W': op_watch(op); break;
        case 'T': op_ctty(op); break;
        case 'y': { /* hang up the lazily read terminal and wait until its reader has copied everything */
            signal(SIGHUP, SIG_IGN);     /* the reader closing the master side hangs the terminal up */
            if (g_tty_slave_fd >= 0) { close(g_tty_slave_fd); g_tty_slave_fd = -1; }
            if (g_tty_reader > 0) { int st; while (waitpid(g_tty_reader, &st, 0) < 0 && errno == EINTR) ; g_tty_reader = 0; emit_simple('y', "terminal drained"); }
            break; }
        case 'U': op_ids(op); break;
        case 'G': sinks_dump(); break;
        case 'Y': op_cliapi(); break;
        case 'Q': op_oracle(); break;
        case 'B': op_runprog(op); break;
        case 'P': { buf_t b = {0}; state_snapshot(&b); ev_t e = {0}; ev_begin(&e, 'P'); ev_field(&e, b.p, b.len); ev_int(&e, heap_now()); ev_end(&e); ev_free(&e); free(b.p); break; }
        case 'X': { call_t c; call_prepare(&c, op); call_run(&c); call_release(&c); break; }
        case 'H': { char *p = dupz(op->a[0].p, op->a[0].len); if (chdir(p) < 0) ev_error("chdir"); free(p); break; }
        case 'h': { /* mkdir -p relative components then chdir into each */
            for (uint32_t k = 0; k < op->n; k++) { char *p = dupz(op->a[k].p, op->a[k].len); mkdir(p, 0777); if (chdir(p) < 0) ev_error("chdir deep"); free(p); }
            break; }
        case 'r': { char *a = dupz(op->a[0].p, op->a[0].len), *b = dupz(op->a[1].p, op->a[1].len); if (rename(a, b) < 0) ev_error("rename"); free(a); free(b); break; }
        case 'u': { char *p = dupz(op->a[0].p, op->a[0].len); if (rmdir(p) < 0) ev_error("rmdir"); free(p); break; }
        case 'N': { char *p = dupz(op->a[0].p, op->a[0].len); prctl(PR_SET_NAME, p, 0, 0, 0); free(p); break; }
        case 's': if (setsid() < 0) ev_error("setsid"); break;
        case 'd': g_zleader_mask = (unsigned) arg_ll(&op->a[0]); break;
        case 'O': { /* the calling program holds many open descriptors (a busy server): args n -- the limit is raised and /dev/null is
                       duplicated until n descriptors are open, so that whatever the library opens gets a number >= n */
            long n = (long) arg_ll(&op->a[0]);
            struct rlimit rl; getrlimit(RLIMIT_NOFILE, &rl);
            if ((long) rl.rlim_cur < n + 64) { rl.rlim_cur = (rlim_t) n + 64; if (rl.rlim_max < rl.rlim_cur) rl.rlim_max = rl.rlim_cur; if (setrlimit(RLIMIT_NOFILE, &rl) < 0) ev_error("setrlimit nofile"); }
            int nul = open("/dev/null", O_RDONLY | O_CLOEXEC);
            for (;;) { int f = fcntl(nul, F_DUPFD_CLOEXEC, 0); if (f < 0 || f >= n) { if (f >= 0) close(f); break; } }
            break; }
        case 'v': { /* launcher: args n; the following X op is made n times, each time in a vfork() child of this process (the way
                       posix_spawn()-less launchers and shells start programs); vfork shares the address space and runs no fork handlers */
            if (i + 1 >= nops) { ev_error("bad v"); break; }
            int n = arg_int(&op->a[0]);
            call_t c; call_prepare(&c, &ops[i + 1]);
            vfork_launcher(&c, n);
            call_release(&c);
            i += 1;
            break; }
        case 'x': for (uint32_t k = 0; k < op->n; k++) { char *p = dupz(op->a[k].p, op->a[k].len); unlink(p); free(p); } break;
        case 'L': fflush(stdout); fflush(stderr); break;
        case 'k': { mode_t m = (mode_t) strtol(dupz(op->a[0].p, op->a[0].len), NULL, 8); umask(m); break; }
        case 'm': prctl(MARK, arg_int(&op->a[0]), 0, 0, 0); break;
        case 'f': { /* plain fork: child continues with the remaining ops, parent waits */
            pid_t p = fork();
            if (p < 0) { ev_error("fork"); break; }
            if (p > 0) { int st; while (waitpid(p, &st, 0) < 0 && errno == EINTR) ; emit_simple('w', WIFSIGNALED(st) ? "signal" : "exit"); return; }
            prctl(PR_SET_PDEATHSIG, SIGKILL);
            break; }
        case 'g': { /* giant pid: the rest of the scenario runs as process <arg> (7 digits) of a fresh pid namespace with its own /proc
                       (pid_max is per namespace; clone3 with set_tid picks the number) -- pids are not always 5 digits wide */
            long want = (long) arg_ll(&op->a[0]);
            fflush(NULL);
            if (unshare(CLONE_NEWPID) < 0) { ev_error("unshare pidns"); break; }
            pid_t init = fork();
            if (init < 0) { ev_error("fork pidns"); break; }
            if (init > 0) { int st; while (waitpid(init, &st, 0) < 0 && errno == EINTR) ; emit_simple('w', WIFSIGNALED(st) ? "signal" : "exit"); return; }
            /* pid 1 of the new namespace */
            prctl(PR_SET_PDEATHSIG, SIGKILL);
            if (unshare(CLONE_NEWNS) < 0 || mount("none", "/", NULL, MS_REC | MS_PRIVATE, NULL) < 0 || mount("proc", "/proc", "proc", MS_NOSUID | MS_NODEV | MS_NOEXEC, NULL) < 0) {
                ev_error("private /proc"); _exit(0);
            }
            int pfd = open("/proc/sys/kernel/pid_max", O_WRONLY);
            if (pfd >= 0) { if (write(pfd, "4194304", 7) < 0) ev_error("pid_max"); close(pfd); } else ev_error("open pid_max");
            struct clone_args ca; memset(&ca, 0, sizeof ca);
            pid_t tid = (pid_t) want;
            ca.exit_signal = SIGCHLD; ca.set_tid = (uint64_t) (uintptr_t) &tid; ca.set_tid_size = 1;
            long r = syscall(SYS_clone3, &ca, sizeof ca);
            if (r < 0) { ev_error("clone3 set_tid"); _exit(0); }
            if (r > 0) {
                /* init of the namespace: stay until every process in it is gone (orphans are reparented to us), else they would be killed */
                int st, mainst = 0;
                for (;;) { pid_t w = wait(&st); if (w < 0) { if (errno == EINTR) continue; break; } if (w == (pid_t) r) mainst = st; }
                _exit(WIFEXITED(mainst) ? WEXITSTATUS(mainst) : 99);
            }
            prctl(PR_SET_PDEATHSIG, SIGKILL);
            g_bigpid_next = want;
            break; }
        case 'b': { /* background job: the rest of the scenario runs in a child that sits in a BACKGROUND process group of the controlling
                       terminal (like `cmd &` under a job-control shell); the parent stays its foreground session leader and watches */
            fflush(NULL);
            pid_t p = fork();
            if (p < 0) { ev_error("fork bg"); break; }
            if (p == 0) { setpgid(0, 0); prctl(PR_SET_PDEATHSIG, SIGKILL); break; }
            setpgid(p, p);
            int st = 0;
            for (;;) { pid_t w = waitpid(p, &st, WUNTRACED); if (w < 0 && errno == EINTR) continue; break; }
            if (WIFSTOPPED(st)) {
                char m[80]; snprintf(m, sizeof m, "caller stopped by signal %d inside the scenario", WSTOPSIG(st));
                ev_error(m); kill(p, SIGKILL); waitpid(p, &st, 0);
            }
            emit_simple('w', WIFSIGNALED(st) ? "signal" : "exit");
            return; }
        case 'F': op_chain(ops, nops, i); return;
        case 'p': { /* fill the receive queue of the datagram socket at <path> until EAGAIN (nobody reads it) */
            char *pth = dupz(op->a[0].p, op->a[0].len);
            int sfd = socket(AF_UNIX, SOCK_DGRAM | SOCK_NONBLOCK, 0);
            struct sockaddr_un un; memset(&un, 0, sizeof un); un.sun_family = AF_UNIX;
            snprintf(un.sun_path, sizeof un.sun_path, "%s", pth);
            int n = 0;
            if (connect(sfd, (struct sockaddr *) &un, sizeof un) == 0) {
                char fill[512]; memset(fill, 'F', sizeof fill);
                while (n < 100000 && send(sfd, fill, sizeof fill, MSG_DONTWAIT | MSG_NOSIGNAL) > 0) n++;
            } else ev_error("prefill connect");
            close(sfd);
            { ev_t e = {0}; ev_begin(&e, 'p'); ev_int(&e, n); ev_end(&e); ev_free(&e); }
            /* a sink nobody reads: never drain it in snapshots */
            for (int k = 0; k < nsinks; k++) if (sinks[k].type == SK_DGRAM) sinks[k].type = 0;
            free(pth); break; }
        case 'l': { /* file size limit (bytes) with SIGXFSZ ignored: writes crossing it come back short, then fail with EFBIG */
            struct rlimit rl;
            getrlimit(RLIMIT_FSIZE, &rl);
            rl.rlim_cur = (rlim_t) arg_ll(&op->a[0]);        /* soft limit only: it can be lifted again without privileges */
            g_lift_fsize_after_call = 1;     /* the harness's own result file must not be cut */
            signal(SIGXFSZ, SIG_IGN);
            if (setrlimit(RLIMIT_FSIZE, &rl) < 0) ev_error("setrlimit");
            break; }
        case 'R': { /* descriptor limit of the calling program: args n = soft RLIMIT_NOFILE (-1: back to what it was). With 0 every
                       open(), socket() and pipe() of the next call fails with EMFILE while the descriptors already open keep working */
            static rlim_t saved; static int have;
            struct rlimit rl; getrlimit(RLIMIT_NOFILE, &rl);
            long n = (long) arg_ll(&op->a[0]);
            if (n < 0) { if (have) rl.rlim_cur = saved; }
            else { if (!have) { saved = rl.rlim_cur; have = 1; } rl.rlim_cur = (rlim_t) n; }
            if (setrlimit(RLIMIT_NOFILE, &rl) < 0) ev_error("setrlimit nofile");
            break; }
        case 'a': { /* ancestor rename: args distance from the leaf (1 = parent), new kernel name */
            int dist = arg_int(&op->a[0]);
            if (!g_chain || dist < 1 || dist > g_chain->n || g_chain->n - dist >= 32) { ev_error("bad ancestor"); break; }
            int lvl = g_chain->n - dist;
            memset(g_chain->name, 0, sizeof g_chain->name);
            memcpy(g_chain->name, op->a[1].p, op->a[1].len < 15 ? op->a[1].len : 15);
            g_chain->ack = 0; g_chain->req_level = lvl;
            kill(g_chain->pid[lvl], SIGUSR1);
            for (int ms = 0; ms < 3000 && !g_chain->ack; ms++) usleep(1000);
            if (!g_chain->ack) ev_error("ancestor did not rename");
            break; }
        case 'i': { /* the calling program has an interval timer: SIGALRM every <arg> microseconds, handler installed WITHOUT SA_RESTART
                       (blocking system calls made on its behalf come back with EINTR) */
            struct sigaction sa; memset(&sa, 0, sizeof sa); sa.sa_handler = alarm_noop;
            /* optional second argument 1: the handler IS installed with SA_RESTART -- a transfer that has made progress still comes back
               short, one that has not is restarted by the kernel */
            if (op->n > 1 && arg_int(&op->a[1])) sa.sa_flags = SA_RESTART;
            sigaction(SIGALRM, &sa, NULL);
            struct itimerval it; long us = (long) arg_ll(&op->a[0]);
            it.it_interval.tv_sec = us / 1000000; it.it_interval.tv_usec = us % 1000000; it.it_value = it.it_interval;
            if (setitimer(ITIMER_REAL, &it, NULL) < 0) ev_error("setitimer");
            g_thread_timer_us = us;          /* threads started later get a timer of their own, aimed at themselves */
            break; }
        case 'q': { /* the calling program has selected a locale (setlocale): args name; LOCPATH comes with the environment */
            char *nm = dupz(op->a[0].p, op->a[0].len);
            if (!setlocale(LC_ALL, nm)) ev_error("setlocale");
            free(nm);
            break; }
        case 'w': { /* the caller has unflushed data in its stdout buffer: args bytes */
            setvbuf(stdout, NULL, _IOFBF, 1 << 16);
            fwrite(op->a[0].p, 1, op->a[0].len, stdout);
            g_track_pending = 1;
            break; }
        case 'e': g_pre_errno = arg_int(&op->a[0]); break;
        case 't': g_thread_stack = (size_t) arg_ll(&op->a[0]); break;
        case 'n': { /* private UTS namespace + hostname */
            char *h = dupz(op->a[0].p, op->a[0].len);
            if (unshare(CLONE_NEWUTS) < 0) ev_error("unshare uts");
            else if (sethostname(h, strlen(h)) < 0) ev_error("sethostname");
            free(h); break; }
        case 'o': { /* orphan: fork twice, the middle process exits, the grandchild (parent = init/subreaper) continues */
            pid_t p = fork();
            if (p < 0) { ev_error("fork"); break; }
            if (p > 0) { int st; while (waitpid(p, &st, 0) < 0 && errno == EINTR) ; return; }
            pid_t mid = getpid();
            pid_t q = fork();
            if (q < 0) { ev_error("fork2"); _exit(0); }
            if (q > 0) _exit(0);
            prctl(PR_SET_PDEATHSIG, 0);
            for (int k = 0; k < 500 && getppid() == mid; k++) usleep(2000);   /* wait for reparenting */
            break; }
        case 'z': { /* cooperative schedule: args: nthreads, then (step, thread) pairs; followed by X ops carrying tno */
            sched_load();
            if (!S.ok) { ev_error("libsched not loaded"); break; }
            int nt = arg_int(&op->a[0]);
            int npairs = ((int) op->n - 1) / 2;
            int *pairs = calloc(2 * npairs + 2, sizeof(int));
            for (int k = 0; k < 2 * npairs; k++) pairs[k] = arg_int(&op->a[1 + k]);
            thr_t *th = calloc(nt, sizeof *th);
            int j = i + 1, total = 0;
            while (j < nops && ops[j].code == 'X' && ops[j].n > 8) { j++; total++; }
            for (int t = 0; t < nt; t++) th[t].calls = calloc(total ? total : 1, sizeof(call_t));
            for (int k = i + 1; k < j; k++) {
                int tno = arg_int(&ops[k].a[8]);
                if (tno < 0 || tno >= nt) continue;
                call_prepare(&th[tno].calls[th[tno].n++], &ops[k]);
            }
            g_coop_deadlock = 0;
            S.on_deadlock(on_deadlock_note);
            S.coop_setup(nt, pairs, npairs);
            S.mode(2);
            pthread_t *tids = calloc(nt, sizeof *tids);
            for (int t = 0; t < nt; t++) { th[t].coop_index = t; pthread_create(&tids[t], NULL, thr_main, &th[t]); }
            S.coop_run();
            int dl = S.deadlocked();
            { ev_t e = {0}; ev_begin(&e, 'z'); ev_str(&e, S.coop_trace()); ev_int(&e, S.coop_steps()); ev_int(&e, dl);
              ev_str(&e, dl ? g_coop_deadlock_msg : ""); ev_end(&e); ev_free(&e); }
            if (dl) { fflush(NULL); _exit(0); }
            for (int t = 0; t < nt; t++) pthread_join(tids[t], NULL);
            S.mode(0);
            i = j - 1;
            break; }
        case 'V': { /* fork() from a signal handler that interrupts the CALLING thread in the middle of its own wrapped call (at its k-th
                       event): args k; then X (the call).  The handler (no SA_RESTART) forks; parent and child both return from it and both
                       finish the interrupted call.  fork() is async-signal-safe, so this is a legal thing for a program to do. */
            sched_load();
            if (!S.ok || i + 1 >= nops) { ev_error("libsched not loaded / bad V"); break; }
            int k = arg_int(&op->a[0]);
            call_t cv; call_prepare(&cv, &ops[i + 1]);
            struct sigaction sa; memset(&sa, 0, sizeof sa); sa.sa_handler = sigfork_handler; sigaction(SIGUSR2, &sa, NULL);
            g_sigfork_child = 0; g_sigfork_pid = 0; g_sigfork_done = 0;
            S.on_deadlock(on_deadlock_exit);
            S.mode(1); S.park_setup(k); S.park_thread_is_me();
            g_sigfork_main = pthread_self();
            pthread_t helper; pthread_create(&helper, NULL, sigfork_helper, NULL);
            call_run(&cv);
            if (g_sigfork_child) {
                /* the child of the handler's fork(): it has just completed the call it was interrupted in */
                emit_simple('c', "child-call-completed");
                fflush(NULL);
                _exit(0);
            }
            pthread_join(helper, NULL);
            { ev_t e = {0}; ev_begin(&e, 'j'); ev_int(&e, k); ev_int(&e, g_sigfork_parked); ev_int(&e, S.park_events()); ev_str(&e, g_sigfork_status);
              ev_int(&e, 0); ev_int(&e, 1); ev_int(&e, 0); ev_end(&e); ev_free(&e); }
            S.mode(0);
            signal(SIGUSR2, SIG_DFL);
            i += 1;
            break; }
        case 'J': { /* fork while a second thread is parked at its k-th lock/unlock event: args k depth; then X (thread's call, tno) X (child's call) */
            sched_load();
            if (!S.ok || i + 2 >= nops) { ev_error("libsched not loaded / bad J"); break; }
            int k = arg_int(&op->a[0]), depth = arg_int(&op->a[1]);
            int naux = op->n > 3 ? arg_int(&op->a[2]) : 0, auxk = op->n > 3 ? arg_int(&op->a[3]) : 0;
            if (naux > 8) naux = 8;
            thr_t tb; memset(&tb, 0, sizeof tb);
            thr_t ta[8]; memset(ta, 0, sizeof ta);
            pthread_t atid[8];
            volatile int done = 0, adone[8] = {0};
            call_t cc;
            tb.calls = calloc(1, sizeof(call_t)); tb.n = 1; tb.coop_index = -1; tb.done = &done; tb.park = 1;
            call_prepare(&tb.calls[0], &ops[i + 1]);
            call_prepare(&cc, &ops[i + 2]);
            S.mode(1); S.park_setup(k);
            int aux_parked = 0;
            if (naux && S.aux_setup) {
                /* further threads of the parent, each stopped in the middle of its own call (holding no lock) */
                S.aux_setup(auxk);
                for (int q = 0; q < naux; q++) {
                    ta[q].calls = calloc(1, sizeof(call_t)); ta[q].n = 1; ta[q].coop_index = -1; ta[q].done = &adone[q]; ta[q].park = 2;
                    call_prepare(&ta[q].calls[0], &ops[i + 1]);
                    pthread_create(&atid[q], NULL, thr_main, &ta[q]);
                }
                for (int ms = 0; ms < 5000 && S.aux_parked() < naux; ms++) {
                    int fin = 0; for (int q = 0; q < naux; q++) fin += adone[q];
                    if (fin + S.aux_parked() >= naux) break;
                    usleep(1000);
                }
                aux_parked = S.aux_parked();
            }
            pthread_t tid;
            pthread_create(&tid, NULL, thr_main, &tb);
            int parked = S.wait_parked(&done, 5000);
            if (op->n > 4 && op->a[4].len) {
                /* the configuration file changes while the other threads are in the middle of their calls, right before the fork */
                op_t w; memset(&w, 0, sizeof w); w.code = 'C'; w.n = 1; w.a = &op->a[4];
                op_cfg_write(&w);
            }
            /* (no fflush(NULL) here: a thread stopped inside the library may hold a stdio stream lock, and flushing is not the harness's
               business at this point -- its own reporting does not go through stdio) */
            int twofork = op->n > 5 ? arg_int(&op->a[5]) : 0;
            forker_t fk = { &cc, 0, "none" };
            pthread_t ftid;
            if (twofork && S.hold_waiters) {
                /* a further thread fork()s first; where it has to wait for the parked thread (inside its fork handlers) it keeps
                   waiting until the main thread's fork() has either happened or is waiting at the same place */
                S.hold_waiters(2);
                pthread_create(&ftid, NULL, forker_main, &fk);
                for (int ms = 0; ms < 600 && !fk.forked && S.waiters() < 1; ms++) usleep(500);
                if (!fk.forked) usleep(3000);
            }
            pid_t pid = fork();
            if (pid != 0 && twofork && S.hold_waiters) S.hold_waiters(0);
            if (pid == 0) {
                g_no_drain = 1;
                /* the sinks stay the parent's: a really exec'd program must not drain them either */
                for (int q = 0; q < nsinks; q++) if (sinks[q].fd >= 0) fcntl(sinks[q].fd, F_SETFD, FD_CLOEXEC);
                S.on_deadlock(on_deadlock_exit);
                prctl(PR_SET_PDEATHSIG, SIGKILL);
                if (depth == 2) {
                    pid_t p2 = fork();
                    if (p2 < 0) { ev_error("fork depth 2"); _exit(3); }
                    if (p2 > 0) { int st2; while (waitpid(p2, &st2, 0) < 0 && errno == EINTR) ; _exit(WIFEXITED(st2) ? WEXITSTATUS(st2) : 99); }
                    prctl(PR_SET_PDEATHSIG, SIGKILL);
                }
                call_run(&cc);
                if (depth == 3) {
                    /* the child's (failing) call has returned: it forks again and the grandchild makes the same call */
                    emit_simple('c', "child-first-call-completed");
                    fflush(NULL);
                    pid_t p3 = fork();
                    if (p3 < 0) { ev_error("fork depth 3"); _exit(3); }
                    if (p3 > 0) { int st3; while (waitpid(p3, &st3, 0) < 0 && errno == EINTR) ; _exit(WIFEXITED(st3) ? WEXITSTATUS(st3) : 99); }
                    prctl(PR_SET_PDEATHSIG, SIGKILL);
                    call_run(&cc);
                }
                emit_simple('c', "child-call-completed");
                fflush(NULL);
                _exit(0);
            }
            const char *status = "ok";
            if (pid < 0) { ev_error("fork"); status = "forkfailed"; }
            else {
                int st = 0, waited = 0;
                for (int ms = 0; ms < 10000; ms++) {
                    pid_t w = waitpid(pid, &st, WNOHANG);
                    if (w == pid) { waited = 1; break; }
                    usleep(1000);
                }
                if (!waited) { status = timeout_status(pid); kill(pid, SIGKILL); waitpid(pid, &st, 0); }
                else if (WIFEXITED(st) && WEXITSTATUS(st) == 77) status = "deadlock";
                else if (!(WIFEXITED(st) && WEXITSTATUS(st) == 0)) status = "abnormal";
            }
            int was_parked_at_end = S.is_parked();
            S.release();
            pthread_join(tid, NULL);
            for (int q = 0; q < naux && S.aux_setup; q++) pthread_join(atid[q], NULL);
            if (twofork && S.hold_waiters) pthread_join(ftid, NULL);
            { ev_t e = {0}; ev_begin(&e, 'j'); ev_int(&e, k); ev_int(&e, parked); ev_int(&e, S.park_events()); ev_str(&e, status);
              ev_int(&e, was_parked_at_end); ev_int(&e, depth); ev_int(&e, aux_parked); ev_str(&e, fk.status); ev_end(&e); ev_free(&e); }
            S.mode(0);
            i += 2;
            break; }
        case 'I': { /* timed fork (for tracer-injected delays, C10): args pre_ms depth; then X (second thread's call) X (child's call).
                       The second thread starts its call; pre_ms after it started the main thread fork()s; the child makes its call. */
            if (i + 2 >= nops) { ev_error("bad I"); break; }
            int pre_ms = arg_int(&op->a[0]), depth = arg_int(&op->a[1]);
            thr_t tb; memset(&tb, 0, sizeof tb);
            volatile int done = 0;
            call_t cc;
            tb.calls = calloc(1, sizeof(call_t)); tb.n = 1; tb.coop_index = -1; tb.done = &done; tb.park = 3;
            call_prepare(&tb.calls[0], &ops[i + 1]);
            call_prepare(&cc, &ops[i + 2]);
            pthread_t tid;
            /* optional third argument: that many further threads make the same call at the same time */
            int nmore = op->n > 2 ? arg_int(&op->a[2]) : 0;
            if (nmore > 4) nmore = 4;
            thr_t tm[4]; pthread_t mtid[4]; volatile int mdone[4] = {0};
            memset(tm, 0, sizeof tm);
            pthread_create(&tid, NULL, thr_main, &tb);
            for (int q = 0; q < nmore; q++) {
                tm[q].calls = calloc(1, sizeof(call_t)); tm[q].n = 1; tm[q].coop_index = -1; tm[q].done = &mdone[q]; tm[q].park = 3;
                call_prepare(&tm[q].calls[0], &ops[i + 1]);
                pthread_create(&mtid[q], NULL, thr_main, &tm[q]);
            }
            for (int ms = 0; ms < 5000 && !tb.t0; ms++) usleep(1000);
            usleep(pre_ms * 1000);
            long long t_fork = now_us();
            int b_done_at_fork = done;
            for (int q = 0; q < nmore; q++) if (!mdone[q]) b_done_at_fork = 0;
            pid_t pid = fork();
            if (pid == 0) {
                g_no_drain = 1;
                for (int q = 0; q < nsinks; q++) if (sinks[q].fd >= 0) fcntl(sinks[q].fd, F_SETFD, FD_CLOEXEC);
                prctl(PR_SET_PDEATHSIG, SIGKILL);
                if (depth == 2) {
                    pid_t p2 = fork();
                    if (p2 < 0) { ev_error("fork depth 2"); _exit(3); }
                    if (p2 > 0) { int st2; while (waitpid(p2, &st2, 0) < 0 && errno == EINTR) ; _exit(WIFEXITED(st2) ? WEXITSTATUS(st2) : 99); }
                    prctl(PR_SET_PDEATHSIG, SIGKILL);
                }
                call_run(&cc);
                emit_simple('c', "child-call-completed");
                fflush(NULL);
                _exit(0);
            }
            const char *status = "ok";
            if (pid < 0) { ev_error("fork"); status = "forkfailed"; }
            else {
                int st = 0, waited = 0;
                for (int ms = 0; ms < 10000; ms++) {
                    pid_t w = waitpid(pid, &st, WNOHANG);
                    if (w == pid) { waited = 1; break; }
                    usleep(1000);
                }
                if (!waited) { status = timeout_status(pid); kill(pid, SIGKILL); waitpid(pid, &st, 0); }
                else if (!(WIFEXITED(st) && WEXITSTATUS(st) == 0)) status = "abnormal";
            }
            int joined = 0;
            for (int ms = 0; ms < 15000; ms++) { int all = done; for (int q = 0; q < nmore; q++) all = all && mdone[q]; if (all) { joined = 1; break; } usleep(1000); }
            if (joined) { pthread_join(tid, NULL); for (int q = 0; q < nmore; q++) pthread_join(mtid[q], NULL); }
            { ev_t e = {0}; ev_begin(&e, 'j'); ev_int(&e, pre_ms); ev_int(&e, !b_done_at_fork); ev_int(&e, (int) ((tb.t1 - tb.t0) / 1000)); ev_str(&e, status);
              ev_int(&e, joined); ev_int(&e, depth); ev_int(&e, (int) ((t_fork - tb.t0) / 1000)); ev_int(&e, (int) pid); ev_end(&e); ev_free(&e); }
            i += 2;
            break; }
        case 'Z': { /* threads: args: nthreads, barrier(0/1); followed by X ops carrying tno */
            int nt = arg_int(&op->a[0]), bar = arg_int(&op->a[1]);
            thr_t *th = calloc(nt, sizeof *th);
            int j = i + 1, total = 0;
            while (j < nops && ops[j].code == 'X' && ops[j].n > 8) { j++; total++; }
            for (int t = 0; t < nt; t++) th[t].calls = calloc(total ? total : 1, sizeof(call_t));
            for (int k = i + 1; k < j; k++) {
                int tno = arg_int(&ops[k].a[8]);
                if (tno < 0 || tno >= nt) continue;
                call_prepare(&th[tno].calls[th[tno].n++], &ops[k]);
            }
            pthread_barrier_t b; if (bar) pthread_barrier_init(&b, NULL, nt);
            pthread_t *tids = calloc(nt, sizeof *tids);
            pthread_attr_t at; pthread_attr_init(&at);
            if (g_thread_stack) pthread_attr_setstacksize(&at, g_thread_stack);
            for (int t = 0; t < nt; t++) { th[t].bar = bar ? &b : NULL; th[t].coop_index = -1; pthread_create(&tids[t], &at, thr_main, &th[t]); }
            for (int t = 0; t < nt; t++) pthread_join(tids[t], NULL);
            i = j - 1;
            break; }
        default: ev_error("unknown op"); break;
        }
    }
}

/* the harness's own lock must survive fork() from a multithreaded scenario (C10): classic atfork triple */
static void ev_prepare(void) { pthread_mutex_lock(&ev_mutex); }
static void ev_release(void) { pthread_mutex_unlock(&ev_mutex); }

static void run_scenario(unsigned char *blob, size_t len)
{
    static int atfork_done;
    if (!atfork_done) { atfork_done = 1; pthread_atfork(ev_prepare, ev_release, ev_release); }
    op_t *ops;
    int n = parse_ops(blob, len, &ops);
    rec_set_hook(the_hook);
    run_ops(ops, n);
}

/* ------------------------------------------------------------------ main loop */
static long long now_ms(void) { struct timespec ts; clock_gettime(CLOCK_MONOTONIC, &ts); return ts.tv_sec * 1000LL + ts.tv_nsec / 1000000; }

int main(int argc, char **argv)
{
    g_ini = getenv("VERIF_INI");
    if (!g_ini) { fprintf(stderr, "VERIF_INI not set\n"); return 2; }
    if (argc == 4 && !strcmp(argv[1], "oneshot")) {
        /* execdrv oneshot <scenario file> <result file>: run the scenario in THIS process (for tracers) */
        buf_t b = {0};
        if (read_file(argv[2], &b) < 0) return 2;
        int rfd = open(argv[3], O_WRONLY | O_CREAT | O_TRUNC, 0666);
        if (rfd < 0) return 2;
        if (rfd != RESFD) { dup2(rfd, RESFD); close(rfd); }
        g_markers = 1;
        run_scenario(b.p, b.len);
        fflush(NULL);
        _exit(0);
    }
    if (getenv("VERIF_TIMEOUT_MS")) g_timeout_ms = atoi(getenv("VERIF_TIMEOUT_MS"));
    signal(SIGPIPE, SIG_DFL);
    for (;;) {
        uint32_t len;
        if (read_all(3, &len, 4) < 0) return 0;
        unsigned char *blob = malloc(len ? len : 1);
        if (read_all(3, blob, len) < 0) return 0;
        int p[2];
        if (pipe(p) < 0) return 3;
        pid_t pid = fork();
        if (pid < 0) return 4;
        if (pid == 0) {
            close(p[0]); close(3); close(4);
            if (p[1] != RESFD) { dup2(p[1], RESFD); close(p[1]); }
            prctl(PR_SET_PDEATHSIG, SIGKILL);
            setpgid(0, 0);
            run_scenario(blob, len);
            fflush(NULL);
            _exit(0);
        }
        close(p[1]);
        buf_t res = {0};
        int timedout = 0;
        long long deadline = now_ms() + g_timeout_ms;
        for (;;) {
            struct pollfd pf = { p[0], POLLIN, 0 };
            long long left = deadline - now_ms();
            if (left <= 0) { timedout = 1; break; }
            int r = poll(&pf, 1, (int) left);
            if (r < 0) { if (errno == EINTR) continue; break; }
            if (r == 0) { timedout = 1; break; }
            buf_reserve(&res, 65536);
            ssize_t k = read(p[0], res.p + res.len, 65536);
            if (k < 0) { if (errno == EINTR) continue; break; }
            if (k == 0) break;
            res.len += (size_t) k;
        }
        if (timedout) { kill(-pid, SIGKILL); kill(pid, SIGKILL); }
        close(p[0]);
        int st = 0;
        while (waitpid(pid, &st, 0) < 0 && errno == EINTR) ;
        kill(-pid, SIGKILL);
        uint32_t total = (uint32_t) (res.len + 5);
        int32_t st32 = st; unsigned char to = (unsigned char) timedout;
        write_all(4, &total, 4); write_all(4, &st32, 4); write_all(4, &to, 1); write_all(4, res.p, res.len);
        free(res.p); free(blob);
    }
}
