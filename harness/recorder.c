/*
 * librecorder.so -- stands in for libc's execv/execve.
 *
 * Placed AFTER libsnoopy.so in LD_PRELOAD, so it is what dlsym(RTLD_NEXT, "execv[e]")
 * resolves to from inside libsnoopy.so.  It never contains snoopy code.
 *
 * The driver registers a hook; the hook decides what the "real exec" returns (scripted
 * ret/errno) or really replaces the process image through rec_real_execve().
 * connect() to /dev/log is redirected to a harness-owned datagram socket.
 */
#define _GNU_SOURCE
#include <dlfcn.h>
#include <errno.h>
#include <stddef.h>
#include <string.h>
#include <sys/socket.h>
#include <sys/syscall.h>
#include <sys/un.h>
#include <unistd.h>

typedef int (*rec_hook_t)(int kind, const char *path, char *const argv[], char *const envp[]);

static rec_hook_t rec_hook;
static char rec_devlog_path[108];

__attribute__((visibility("default"))) void rec_set_hook(rec_hook_t h) { rec_hook = h; }

__attribute__((visibility("default"))) void rec_set_devlog(const char *p)
{
    if (p == NULL) { rec_devlog_path[0] = 0; return; }
    strncpy(rec_devlog_path, p, sizeof(rec_devlog_path) - 1);
    rec_devlog_path[sizeof(rec_devlog_path) - 1] = 0;
}

__attribute__((visibility("default"))) int rec_real_execve(const char *path, char *const argv[], char *const envp[])
{
    return (int) syscall(SYS_execve, path, argv, envp);
}

__attribute__((visibility("default"))) int execve(const char *path, char *const argv[], char *const envp[])
{
    if (rec_hook) return rec_hook(1, path, argv, envp);
    return (int) syscall(SYS_execve, path, argv, envp);
}

extern char **environ;

__attribute__((visibility("default"))) int execv(const char *path, char *const argv[])
{
    if (rec_hook) return rec_hook(0, path, argv, NULL);
    return (int) syscall(SYS_execve, path, argv, environ);
}

__attribute__((visibility("default"))) int connect(int fd, const struct sockaddr *addr, socklen_t len)
{
    static int (*real_connect)(int, const struct sockaddr *, socklen_t);
    if (!real_connect) real_connect = (int (*)(int, const struct sockaddr *, socklen_t)) dlsym(RTLD_NEXT, "connect");
    if (rec_devlog_path[0] && addr && addr->sa_family == AF_UNIX && len > offsetof(struct sockaddr_un, sun_path)) {
        const struct sockaddr_un *un = (const struct sockaddr_un *) addr;
        size_t plen = len - offsetof(struct sockaddr_un, sun_path);
        if (plen >= 8 && strncmp(un->sun_path, "/dev/log", 8) == 0 && (plen == 8 || un->sun_path[8] == 0)) {
            struct sockaddr_un r;
            memset(&r, 0, sizeof r);
            r.sun_family = AF_UNIX;
            strncpy(r.sun_path, rec_devlog_path, sizeof(r.sun_path) - 1);
            return real_connect(fd, (struct sockaddr *) &r, sizeof r);
        }
    }
    return real_connect(fd, addr, len);
}
